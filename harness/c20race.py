"""C20, dispatcher / task-process protocol of DefaultWorker._dispatch.

The REAL `_dispatch` (and its nested `_worker_proc`) run on fake
multiprocessing primitives (Lock, Event, Process, result queue) which call
back into a step scheduler: the dispatcher (party D) and the task process
(party T, a thread started by the fake Process) park before every
synchronisation operation and perform it only when the controller grants them
the next step.  A case names the payload (return / raise / die / hang),
whether the request has a timeout, and a schedule: a string over
  D = the dispatcher makes its next step, T = the task process makes its next
  step, X = the timeout of join(timeout) expires;
a choice that is not enabled (lock held by the other party, join still
waiting, payload hangs, party finished / not started) is a no-op.  After the
schedule the run is completed by a fixed policy (D if enabled, else T, else
expiry).  The queued results plus the result of one LATER request are then fed
through the real `_result_watcher` / `_result_cb` / `_dealloc`."""
import os
import queue
import sys
import threading
from unittest import mock

PAYLOADS = ('return', 'raise', 'die', 'hang')
MAX_STEPS = 80


class Killed(BaseException):
    """the task process was terminated"""


class HarnessError(Exception):
    pass


class StopWatcher(BaseException):
    """all queued results were consumed: the watcher thread is still alive"""


class StepSched:

    def __init__(self, payload, timed, sig='now'):
        self.payload, self.timed, self.sig = payload, timed, sig
        self.t_sigterm = False     # SIGTERM delivered, process not (yet) dead
        self.exp2 = False          # a later join(timeout=...) of the dispatcher expired
        self.join_no = 0
        self.abort = False
        self.reported_while_alive = False
        self.cv = threading.Condition()
        self.pending = {}          # party -> (op, info) while parked
        self.turn = None
        self.busy = None
        self.finished = set()
        self.parties = {}          # thread ident -> party
        self.lock_owner = None
        self.event = False
        self.expired = False
        self.t_dead = False
        self.t_killed = False
        self.trace = []
        self.results = []

    # ---- party side -------------------------------------------------------
    def party(self):
        return self.parties.get(threading.get_ident())

    def sync(self, op, **info):
        """park before a synchronisation operation; returns (with self.cv
        held by the caller's `with`) once the controller grants the step"""
        p = self.party()
        if p is None:
            raise HarnessError('synchronisation op %s from an unknown thread' % op)
        with self.cv:
            if self.abort or (p == 'T' and self.t_killed):
                raise Killed()
            self.pending[p] = (op, info)
            if self.busy == p:
                self.busy = None
            self.cv.notify_all()
            while self.turn != p:
                if self.abort or (p == 'T' and self.t_killed):
                    raise Killed()
                if not self.cv.wait(20):
                    raise HarnessError('party %s starved at %s' % (p, op))
            self.turn = None
            self.pending.pop(p, None)

    def record(self, *ev):
        self.trace.append(list(ev))

    def party_done(self, p):
        with self.cv:
            self.finished.add(p)
            self.pending.pop(p, None)
            if self.busy == p:
                self.busy = None
            self.cv.notify_all()

    # ---- controller side --------------------------------------------------
    def enabled(self, p):
        if p in self.finished or p not in self.pending:
            return False
        op, info = self.pending[p]
        if op == 'acquire':
            return self.lock_owner is None
        if op == 'join':
            if info.get('timeout') is None:
                return self.t_dead
            return self.t_dead or (self.expired if info.get('n') == 1 else self.exp2)
        if op == 'fn':
            return self.payload != 'hang'
        return True

    def grant(self, p):
        with self.cv:
            self.turn = p
            self.busy = p
            self.cv.notify_all()
            while self.busy == p:
                if not self.cv.wait(20):
                    raise HarnessError('party %s does not come back' % p)

    def kill_t(self):
        with self.cv:
            if not self.t_dead:
                self.t_killed = True
                self.t_dead = True
                self.pending.pop('T', None)
                self.cv.notify_all()

    def expire(self):
        """the timeout of a join(timeout=...) expires: the request's own timeout first (may fire at any
        time), then that of a later timed join the dispatcher is waiting in"""
        if self.timed and not self.expired:
            self.expired = True
            self.record('X', 'expire')
            return True
        op, info = self.pending.get('D', (None, {}))
        if op == 'join' and info.get('timeout') is not None and info.get('n', 1) >= 2 and not self.exp2:
            self.exp2 = True
            self.record('X', 'expire2')
            return True
        return False

    def die(self):
        """a process that reacts to SIGTERM with a delay finally dies"""
        if self.t_sigterm and self.sig == 'delay' and not self.t_dead:
            self.kill_t()
            self.record('K', 'die')
            return True
        return False

    def choose(self, c):
        if c == 'X':
            return self.expire()
        if c == 'K':
            return self.die()
        if self.enabled(c):
            self.grant(c)
            return True
        return False

    def complete(self):
        n = 0
        while n < MAX_STEPS:
            n += 1
            if self.enabled('D'):
                self.grant('D')
            elif self.enabled('T'):
                self.grant('T')
            elif self.expire():
                pass
            elif self.die():
                pass
            else:
                break


# ------------------------------------------------------------------------------
# fake multiprocessing primitives
#
class SLock:
    def __init__(self, s):
        self.s = s

    def __enter__(self):
        s = self.s
        s.sync('acquire')
        s.lock_owner = s.party()
        s.record(s.party(), 'acquire')
        return self

    def acquire(self, *a, **k):
        self.__enter__()
        return True

    def __exit__(self, *a):
        s = self.s
        if s.party() == 'T' and s.t_killed:
            return False                      # a killed process never releases
        s.sync('release')
        s.lock_owner = None
        s.record(s.party(), 'release')
        return False

    def release(self):
        self.__exit__()


class SEvent:
    def __init__(self, s):
        self.s = s

    def set(self):
        self.s.sync('set')
        self.s.event = True
        self.s.record(self.s.party(), 'set')

    def is_set(self):
        self.s.sync('is_set')
        self.s.record(self.s.party(), 'is_set', self.s.event)
        return self.s.event

    def wait(self, timeout=None):
        return self.is_set()


class SProcess:
    def __init__(self, s, target=None, args=(), kwargs=None, **kw):
        self.s, self.target, self.args, self.kwargs = s, target, args, kwargs or {}
        self.daemon = False
        self.pid = 4242
        self.thread = None

    @property
    def exitcode(self):
        if not self.s.t_dead:
            return None
        return -15 if self.s.t_killed else 0

    def _run(self):
        s = self.s
        s.parties[threading.get_ident()] = 'T'
        try:
            try:
                self.target(*self.args, **self.kwargs)
            except Killed:
                return
            except BaseException:             # noqa  (sys.exit() in the payload ...)
                pass
            s.sync('exit')
            s.t_dead = True
            s.record('T', 'exit')
        except Killed:
            pass
        finally:
            s.party_done('T')

    def start(self):
        s = self.s
        s.sync('start')
        s.record('D', 'start')
        self.thread = threading.Thread(target=self._run, daemon=True)
        self.thread.start()
        with s.cv:                            # wait until the task process parks (or ends)
            while 'T' not in s.pending and 'T' not in s.finished:
                if not s.cv.wait(20):
                    raise HarnessError('task process never reached a synchronisation point')

    def join(self, timeout=None):
        self.s.join_no += 1
        self.s.sync('join', timeout=timeout, n=self.s.join_no)
        self.s.record('D', 'join')

    def is_alive(self):
        self.s.sync('is_alive')
        self.s.record('D', 'is_alive', not self.s.t_dead)
        return not self.s.t_dead

    def terminate(self):
        s = self.s
        s.sync('terminate')
        if not s.t_dead:
            if s.sig == 'now':
                s.kill_t()
            elif s.sig == 'delay':
                s.t_sigterm = True
        s.record('D', 'terminate')

    def kill(self):
        s = self.s
        s.sync('kill')
        s.kill_t()
        s.record('D', 'kill')


class SQueue:
    def __init__(self, s):
        self.s = s

    def put(self, res):
        s = self.s
        s.sync('put')
        k = classify(res, s.payload)
        if s.party() == 'D' and not s.t_dead:
            s.reported_while_alive = True
        s.results.append((k, res))
        s.record(s.party(), 'put', k)

    def close(self):
        pass

    def join_thread(self):
        pass


class MPShim:
    def __init__(self, s):
        self.s = s

    def Lock(self):
        return SLock(self.s)

    def Event(self):
        return SEvent(self.s)

    def Process(self, *a, **kw):
        return SProcess(self.s, *a, **kw)

    def __getattr__(self, name):
        import multiprocessing as mp
        return getattr(mp, name)


def classify(res, payload):
    try:
        _task, _out, err, ret, val, exc = res
        err = str(err)
        if err.startswith('timeout (>') and ret == 1 and exc[0] is not None:
            return 'timeout'
        if err.startswith('task process died') and ret == 1 and exc[0] is not None:
            return 'died'
        if ret == 0 and val == 5 and exc[0] is None:
            return 'real0'
        if ret == 1 and val is None and exc[0] is not None and 'ValueError' in str(exc[0]):
            return 'real1'
    except Exception:
        pass
    return 'other'


# ------------------------------------------------------------------------------
#
def run_race(case):
    """one run of the real _dispatch under the schedule of `case`"""
    import radical.pilot.raptor.worker_default as wd
    payload, timed, sched = case['payload'], case['timed'], case['sched']
    s = StepSched(payload, timed, case.get('sig', 'now'))
    cwd = os.getcwd()

    def dispatcher(task):
        # the request's execution mode: the call ends when the scheduler lets it
        s.sync('fn')
        s.record('T', 'fn')
        if payload == 'return':
            return '', '', 0, 5, (None, None)
        if payload == 'raise':
            raise ValueError('m1')
        sys.exit(3)

    w = wd.DefaultWorker.__new__(wd.DefaultWorker)
    w._uid = 'worker.0000'
    w._log, w._prof = mock.MagicMock(), mock.MagicMock()
    w._sbox = cwd
    w._task_env = {}
    w._result_queue = SQueue(s)
    w._modes = {'task.race': dispatcher}
    task = {'uid': 'req.000001', 'slots': [{'cores': [0], 'gpus': []}], 'task_sandbox_path': cwd,
            'description': {'mode': 'task.race', 'environment': {}, 'timeout': 0.25 if timed else 0}}
    err = []

    def run_d():
        s.parties[threading.get_ident()] = 'D'
        try:
            w._dispatch(task, {})
        except SystemExit:
            pass
        except BaseException as e:            # noqa
            err.append('%s: %s' % (type(e).__name__, e))
        finally:
            s.party_done('D')

    shim = MPShim(s)
    import setproctitle
    title = setproctitle.getproctitle()
    with mock.patch.object(wd, 'mp', shim):
        d = threading.Thread(target=run_d, daemon=True)
        with s.cv:
            s.busy = 'D'
        d.start()
        with s.cv:
            while s.busy == 'D':
                if not s.cv.wait(20):
                    raise HarnessError('dispatcher never reached a synchronisation point')
        for c in sched:
            s.choose(c)
        s.complete()
        # the run is over (or stuck for good): unwind whatever is still parked
        with s.cv:
            stuck = sorted(p for p in ('D', 'T') if p in s.pending)
            fin_d = 'D' in s.finished
            finished = fin_d and s.t_dead
            s.t_alive_end = not s.t_dead
            s.abort = True
            s.cv.notify_all()
        d.join(5)
    os.chdir(cwd)
    setproctitle.setproctitle(title)
    os.environ.pop('CUDA_VISIBLE_DEVICES', None)
    if err:
        raise HarnessError('dispatcher raised: %s' % err[0])
    return s, finished, stuck


def run_watcher(results, pid):
    """feed the queued results and the result of one later request through the
    real _result_watcher/_result_cb/_dealloc"""
    import radical.pilot.raptor.worker_default as wd
    w = wd.DefaultWorker.__new__(wd.DefaultWorker)
    w._uid = 'worker.0000'
    w._log, w._prof = mock.MagicMock(), mock.MagicMock()
    w._res_evt = mock.MagicMock()
    w._rlock, w._plock = threading.Lock(), threading.Lock()
    w._resources = {'cores': [1, 1], 'gpus': []}          # both requests are running
    w._pool = {pid: None, 424242: None}
    returned = []
    w._res_put = mock.MagicMock()
    w._res_put.put = lambda task: returned.append(task['uid'])
    later = {'uid': 'req.000002', 'pid': 424242, 'slots': [{'cores': [1], 'gpus': []}]}
    items = [r for _k, r in results] + [[later, 'out', '', 0, 5, [None, None]]]

    class Q:
        def get(self, timeout=None):
            if items:
                return items.pop(0)
            raise StopWatcher()
    w._result_queue = Q()
    alive, why = False, None
    try:
        w._result_watcher()
    except StopWatcher:
        alive = True
    except BaseException as e:                # noqa
        why = type(e).__name__
    cores_after = list(w._resources['cores'])
    # a third request arrives: it is placed on whatever the raced request gave back
    third = None
    if alive and w._resources['cores'][0] == 0:
        started = []

        class FakeProcess:
            def __init__(self, target=None, args=(), **kw):
                self.task, self.pid = args[0], 434343

            def start(self):
                started.append(list(self.task['slots'][0]['cores']))
        w._n_cores, w._n_gpus, w._task_env = 2, 0, {}
        mp_shim = mock.MagicMock()
        mp_shim.Process = FakeProcess
        with mock.patch.object(wd, 'mp', mp_shim):
            w._request_cb([{'uid': 'req.000003', 'cores': 1, 'gpus': 0,
                            'description': {'mode': 'task.function', 'timeout': 0}}])
        third = started[0] if started else None
    return {'returned': [int(u.rsplit('.', 1)[1]) for u in returned], 'alive': alive, 'why': why,
            'cores': cores_after, 'pool': len(w._pool), 'third': third}


def impl_race(case):
    s, finished, stuck = run_race(case)
    obs = {'trace': s.trace, 'queue': [k for k, _r in s.results], 'finished': finished, 'stuck': stuck,
           'reported_while_alive': s.reported_while_alive, 't_alive_end': s.t_alive_end}
    obs.update(run_watcher(s.results, os.getpid()))
    return obs


# ------------------------------------------------------------------------------
# case generation
#
def structured(payload, timed, quick):
    """D starts the task process; the task process makes j steps; the timeout
    expires; the dispatcher makes k steps; the task process makes m steps;
    then the completion policy"""
    tn = 2 if payload == 'die' else 0 if payload == 'hang' else 6
    out = []
    if timed:
        for j in range(tn + 1):
            for k in range(0, 10):
                for m in sorted(set([0, tn] if quick else range(tn + 1))):
                    out.append('D' + 'T' * j + 'X' + 'D' * k + 'T' * m)
        for k in range(0, 4):                 # expiry after the dispatcher already went on
            out.append('D' + 'T' * tn + 'D' * k + 'X')
    else:
        for j in range(tn + 1):
            for k in range(0, 10):
                out.append('D' + 'T' * j + 'D' * k)
    seen, res = set(), []
    for x in out:
        if x not in seen:
            seen.add(x)
            res.append(x)
    return res


def gen_cases(rng, tier):
    quick = tier == 'quick'
    for payload in PAYLOADS:
        for timed in (True, False):
            if payload == 'hang' and not timed:
                continue
            for sc in structured(payload, timed, quick):
                yield {'kind': 'race', 'payload': payload, 'timed': timed, 'sched': sc}
    # the task process's reaction to SIGTERM: dies later ('delay': K = it dies now) or never;
    # the task process makes j steps, the timeout expires, the dispatcher gets as far as (or
    # past) terminate(), then grace expiry / delayed death / further steps in every order
    tails = ['', 'K', 'X', 'XK', 'KX', 'TK', 'TX', 'TXDDDDDD', 'XDDKDDD', 'KDDDDD', 'XDTDKD', 'TKXDD']
    for sig in ('delay', 'never'):
        for payload in PAYLOADS:
            for j in (0, 1, 2):
                for k in (4, 5, 6, 7):
                    for tail in (tails if not quick else tails[::2] if (j + k) % 2 else tails[1::2]):
                        yield {'kind': 'race', 'payload': payload, 'timed': True, 'sig': sig,
                               'sched': 'D' + 'T' * j + 'X' + 'D' * k + tail}
    for _ in range(150 if quick else 3000):
        payload = rng.choice(['return', 'return', 'raise', 'die', 'hang'])
        timed = True if payload == 'hang' else rng.random() < 0.8
        sig = rng.choice(['now', 'now', 'delay', 'never'])
        n = rng.randint(0, 18)
        sc = 'D' + ''.join(rng.choice('DDDTTXK' if timed else 'DT') for _i in range(n))
        yield {'kind': 'race', 'payload': payload, 'timed': timed, 'sig': sig, 'sched': sc}
    if not quick:
        import itertools
        for payload in ('return', 'die'):
            for n in range(0, 9):
                for seq in itertools.product('DTX', repeat=n):
                    yield {'kind': 'race', 'payload': payload, 'timed': True, 'sched': 'D' + ''.join(seq)}
        for payload in ('return', 'hang'):
            for sig in ('delay', 'never'):
                for n in range(0, 7):
                    for seq in itertools.product('DTXK', repeat=n):
                        yield {'kind': 'race', 'payload': payload, 'timed': True, 'sig': sig,
                               'sched': 'DXDDDD' + ''.join(seq)}


# ------------------------------------------------------------------------------
# literals
#
RK = dict(real0='RReal0', real1='RReal1', timeout='RTimeout', died='RDied', other='ROther')
PAY = {'return': 'PayReturn', 'raise': 'PayRaise', 'die': 'PayDie', 'hang': 'PayHang'}


def b(x):
    return 'true' if x else 'false'


def rop_lit(e):
    p = {'D': 'PD', 'T': 'PT', 'X': 'PD'}.get(e[0], 'PD')
    op = e[1]
    if op == 'expire':
        return '(PD, RoExpire)'
    if op == 'expire2':
        return '(PD, RoExpire2)'
    if op == 'die':
        return '(PT, RoDie)'
    if op == 'kill':
        return '(PD, RoKill)'
    simple = dict(start='RoStart', join='RoJoin', acquire='RoAcquire', terminate='RoTerminate', set='RoSet',
                  release='RoRelease', fn='RoFn', exit='RoExit')
    if op in simple:
        return '(%s, %s)' % (p, simple[op])
    if op == 'is_alive':
        return '(%s, RoIsAlive %s)' % (p, b(e[2]))
    if op == 'is_set':
        return '(%s, RoIsSet %s)' % (p, b(e[2]))
    if op == 'put':
        return '(%s, RoPut %s)' % (p, RK.get(e[2], 'ROther'))
    return '(%s, RoOther)' % p


def sched_lit(sc):
    return '[' + '; '.join({'D': 'CD', 'T': 'CT', 'X': 'CX', 'K': 'CK'}[c] for c in sc) + ']'


SIG = dict(now='SigNow', delay='SigDelay', never='SigNever')


def sig_lit(case):
    return SIG[case.get('sig', 'now')]


def coq_row(case, obs):
    return '(c20_race_row %s %s %s %s %s %s %s %s %s %s %s)' % (
        PAY[case['payload']], b(case['timed']), sig_lit(case), sched_lit(case['sched']),
        '[' + '; '.join(rop_lit(e) for e in obs['trace']) + ']',
        '[' + '; '.join(RK.get(k, 'ROther') for k in obs['queue']) + ']',
        b(obs['finished']),
        '[' + '; '.join('(%d)%%Z' % u for u in obs['returned']) + ']',
        b(obs['alive']),
        '[' + '; '.join(b(x) for x in obs['cores']) + ']',
        b(obs['reported_while_alive']))


def extra_row(obs):
    third = obs.get('third')
    return '(c20_race_extra %s %s)' % (b(obs['reported_while_alive']), 'None' if third is None else
                                       '(Some [%s])' % '; '.join('(%d)%%Z' % c for c in third))


def model_show(case):
    return 'race_show %s %s %s %s' % (PAY[case['payload']], b(case['timed']), sig_lit(case),
                                      sched_lit(case['sched']))


def shrink(case):
    sc = case['sched']
    for i in range(len(sc) - 1, 0, -1):
        yield dict(case, sched=sc[:i] + sc[i + 1:])
