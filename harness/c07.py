"""C07 -- the executor finishes each task exactly once.

Implementation under test: the real Popen executor methods (work_cb intake
filter, work, _handle_task, _launch_task, _watch/_check_running, cancel_task,
control_cb, _to_watcher/handle_timeout, LaunchMethod.cancel_task) run in four
real threads under the line-granular scheduler of harness/execlib.py; model
schedules are replayed step by step and every step's recorded actions and
emissions are compared with RP.Exec.Model.run."""
import json
import os
import re

from . import coqlit as L
from . import execlib as X
from .core import Prop, rp_import, COQ, VERIF, run, Scratch

from .execlib import (lit_scenario, lit_choice, lit_sched, lit_emission, lit_obs, lit_pstate, lit_final, delivered,
                      gen_scenario, gen_sched, coq_row_args)


# ------------------------------------------------------------------ the check
class C07(Prop):
    id = 'C07'
    module = 'c07'
    title = 'The executor finishes each task exactly once'
    props_files = ['Props/C07.v']
    extra_targets = ['Exec/Oracle.vo', 'Exec/CancelProofs.vo', 'Exec/Enum.vo']
    model_targets = ['Exec/Oracle.vo']
    translators = []
    header = 'From RP Require Import Exec.Model Exec.Oracle.'
    clauses = list(X.C07_CLAUSES)
    row_fn = 'c07_row'
    corr_name = ('Exec.Model.run (istep/cstep/wstep/tstep/kstep) vs the real Popen.work_cb/work/_launch_task/'
                 '_watch/_check_running/cancel_task/control_cb/_to_watcher under the line-granular scheduler')
    rule = ('corpus, then sampled schedules (thread weights and exit points drawn from the seed) over scenarios of '
            '1-3 tasks x {no fault, no launcher, script error, spawn error, error after spawn} x {timeout} x {process outlives the kill} x '
            '{0-2 cancel messages}; plus batches of 100-205 light tasks that fill the watcher\'s bulk of 100 pulls; each schedule is replayed on the real methods and completed fairly; thorough: '
            'additionally every schedule (preemption only before actions on shared state) of the 1-task scenarios and '
            'of 2-task scenarios, enumerated by the model; non-trivial = at least two threads ran a _check_lock '
            'region for the same uid, or a launch fault met a cancel request / timeout for that uid')
    trusted = [
        'correspondence harness harness/execlib.py + harness/c07.py: real Popen object built without __init__, real '
        'threads running the real work_cb/_control_cb/_watch/_to_watcher, line-granular sys.settrace scheduler, '
        'recording wrappers for self._tasks, task[\'proc\'], the three locks, the cancel list, the watch queue, '
        'a fake subprocess.Popen/os.killpg and a fake clock; steps compared inside Coq by vm_compute',
        'modelled, not verified: OS semantics of killpg/wait (a kill ends a running process at once, or -- stubborn '
        'process -- has no effect and cancel_task blocks in proc.wait() until the process exits by itself; the fake '
        'wait(timeout=..) expires iff the process still runs when the waiting thread is scheduled next), '
        'script generation and launcher selection (one fallible step), profiling/logging, zmq delivery of '
        'advance()/publish(), the 100-task bulk limit of the watcher, startup_timeout/task_startup_done',
    ]
    assumptions = ['uids delivered to the executor are pairwise distinct',
                   'fair completion: every thread gets to run and every spawned process eventually exits',
                   'launch faults are the four modelled points (no launcher, script creation, spawn, after spawn); '
                   'cancel_task/advance/publish themselves do not raise']
    impl_timeout = 1500
    widen_cases = 600

    # ------------------------------------------------------------------ cases
    def cases(self, rng, tier):
        n = 320 if tier == 'quick' else 3000
        n = int(os.environ.get('VERIF_C07_N', n))
        for i in range(n):
            sc = gen_scenario(rng)
            yield dict(sc, sched=gen_sched(rng, sc))
        # directed: every fault x cancel / timeout, intake first then races
        for f in X.FAULTS:
            for to in (False, True):
                for named in (False, True):
                    for stub in ((False, True) if f == 'none' else (False,)):
                        for soe in (False, True):       # description.stage_on_error
                            sc = {'batches': [[{'uid': 1, 'fault': f, 'timeout': to, 'stubborn': stub,
                                                'stage_on_error': soe, 'startup': soe and to}]],
                                  'cancels': [[1]] if named else [], 'exit_codes': {'1': 3}}
                            for _ in range(1 if tier == 'quick' else 6):
                                yield dict(sc, sched=gen_sched(rng, sc, rng.randint(4, 40)))
        # a process that outlives the kill: the canceling thread (C, T, or the late check in I) sits in proc.wait()
        for who in ('C', 'T', 'I'):
            sc = {'batches': [[{'uid': 1, 'fault': 'none', 'timeout': who == 'T', 'stubborn': True},
                               {'uid': 2, 'fault': 'none', 'timeout': False, 'stubborn': False}]],
                  'cancels': [[1]] if who != 'T' else [], 'exit_codes': {'1': 3, '2': 0}}
            pre = ['C', 'C'] + ['I'] * 9 if who == 'I' else ['I'] * 18
            pre = (['I'] + pre) if who == 'I' else pre
            for _ in range(3 if tier == 'quick' else 20):
                mid = [rng.choice([who, who, 'W', 'C', 'T']) for _ in range(rng.randint(6, 20))]
                yield dict(sc, sched=pre + mid + [['X', 1, 3]] + gen_sched(rng, sc, rng.randint(0, 12)))
        for c in X.exit_before_poll_cases(rng):
            yield c
        for c in X.bulk_cancel_cases(rng, 4 if tier == 'quick' else 30):
            yield c
        # very long cancel requests which also name a task the executor meets later
        for c in X.scale_cancel_cases(rng, [1100] if tier == 'quick' else [1025, 1500, 2200, 3000]):
            yield c
        for c in X.scale_cancel_cases(rng, [1300] if tier == 'quick' else [1300, 2600], split=True,
                                      positions=('first',) if tier == 'quick' else ('first', 'middle')):
            yield c
        # the bulk limit of the watcher (MAX_QUEUE_BULKSIZE = 100): more than a full bulk waits in the watch queue
        for nbig in ((101,) if tier == 'quick' else (100, 101, 107, 113, 120, 130, 205)):
            yield X.big_case(nbig, rng)
        if tier == 'thorough':
            for c in self.enumerated():
                yield c

    def enumerated(self):
        """schedules enumerated by the model (Exec.Enum): every transition of the state graph reachable
        from the state after `prefix`, breadth-first, up to `cap` states"""
        jobs = []
        P2 = ['I'] * 10                      # the intake has launched the task: races of C/T/W/exit only
        for f in X.FAULTS:
            for to in (False, True):
                sc = {'batches': [[{'uid': 1, 'fault': f, 'timeout': to}]], 'cancels': [[1]], 'exit_codes': {'1': 3}}
                jobs.append((sc, [], 300))
                if f == 'none':
                    jobs.append((sc, P2, 600))
                    st = {'batches': [[{'uid': 1, 'fault': f, 'timeout': to, 'stubborn': True}]], 'cancels': [[1]],
                          'exit_codes': {'1': 3}}
                    jobs.append((st, P2, 500))
        sc2 = {'batches': [[{'uid': 1, 'fault': 'none', 'timeout': False}, {'uid': 2, 'fault': 'none', 'timeout': False}]],
               'cancels': [[2]], 'exit_codes': {'1': 0, '2': 1}}
        jobs.append((sc2, ['I'] * 14, 500))
        sc3 = {'batches': [[{'uid': 1, 'fault': 'afterspawn', 'timeout': False}], [{'uid': 2, 'fault': 'none', 'timeout': False}]],
               'cancels': [[1, 2]], 'exit_codes': {'1': 0, '2': 0}}
        jobs.append((sc3, ['I'] * 4, 400))
        out = []
        with Scratch('C07-enum') as scratch:
            for k, (sc, prefix, cap) in enumerate(jobs):
                fn = os.path.join(scratch, 'enum_%d.v' % k)
                exits = L.lst(['(%s, %s)' % (L.Z(int(u)), L.Z(c)) for u, c in sorted(sc['exit_codes'].items())])
                with open(fn, 'w') as f:
                    f.write('From Coq Require Import ZArith List Bool String.\nImport ListNotations.\n'
                            'From RP Require Import Exec.Model Exec.Enum.\n'
                            'Eval vm_compute in (map show_sched (enum_scheds %s %s %s 300%%nat %d%%nat)).\n'
                            % (lit_scenario(sc), exits, lit_sched(prefix), cap))
                rc, outp = run(['coqc', '-R', COQ, 'RP', '-w', '-all', fn], cwd=scratch, timeout=900)
                if rc != 0 or '= [' not in outp:
                    raise RuntimeError('schedule enumeration failed: %s' % outp[-500:])
                for line in re.findall(r'"([^"]*)"', outp[outp.index('= ['):]):
                    line = line.replace('\n', '').replace(' ', '')
                    if not line:
                        continue
                    sched = []
                    for tok in line.split(','):
                        if tok[0] == 'X':
                            u = int(tok[1:])
                            sched.append(['X', u, int(sc['exit_codes'][str(u)])])
                        else:
                            sched.append(tok)
                    out.append(dict(sc, sched=sched))
        return out

    # ------------------------------------------------------------------ impl
    def impl_setup(self):
        self.rp = rp_import()

    def run_impl(self, case):
        obs = X.run_case(self.rp, case)
        if obs['anomalies']:
            # timing-sensitive?  run once more before reporting
            obs = X.run_case(self.rp, case)
        n = len(case['sched'])
        if obs['sched'][:n] != case['sched'] and len(obs['sched']) >= n:
            raise RuntimeError('executed schedule does not extend the given one')
        return obs

    # ------------------------------------------------------------------ coq
    def coq_row(self, case, obs):
        return '(%s %s)' % (self.row_fn, coq_row_args(case, obs))

    def model_show(self, case):
        return 'snd (run (init %s) %s)' % (lit_scenario(case), lit_sched(case['sched']))

    # ------------------------------------------------------------------ misc
    def nontrivial(self, case, obs):
        lockers = {}
        for t, es, _ in obs['steps']:
            for k, u, a in es:
                if k in (X.EV_TASKS_IN, X.EV_TASKS_POP):
                    lockers.setdefault(u, set()).add(t)
        if any(len(v) >= 2 for v in lockers.values()):
            return True
        named = {u for m in case.get('cancels', []) for u in m}
        return any(t.get('fault', 'none') != 'none' and (t['uid'] in named or t.get('timeout'))
                   for b in case['batches'] for t in b)

    def signature(self, case, obs, clause):
        """clause:site -- site = the code path that handled the offending uid"""
        site = 'race'
        if obs:
            ems = [m for _, _, ms in obs['steps'] for m in ms]
            adv = {}
            for m in ems:
                if m[0] == 'A':
                    for u, _, _ in m[2]:
                        adv.setdefault(u, []).append(m[1])
            uns = {}
            for m in ems:
                if m[0] == 'U':
                    for u in m[1]:
                        uns[u] = uns.get(u, 0) + 1
            faults = {t['uid']: t.get('fault', 'none') for b in case['batches'] for t in b}
            for u in delivered(case):
                a = adv.get(u, [])
                hand = [s for s in a if s != 'AGENT_EXECUTING']
                if len(hand) == 1 and uns.get(u, 0) == 1 and a.count('AGENT_EXECUTING') <= 1:
                    continue
                if 'CANCELED' in a and 'AGENT_EXECUTING' not in a:
                    site = 'intake_filter'
                elif 'CANCELED' in a:
                    site = 'late_check'
                elif faults.get(u) != 'none':
                    site = 'launch_error'
                else:
                    site = 'race'
                break
        return '%s:%s' % (clause, site)

    def shrink(self, case):
        s = case['sched']
        n = len(s)
        nt = len(delivered(case))
        nc = sum(len(m) for m in case.get('cancels', []))
        if nc > 200:
            # a very long cancel request: few, expensive candidates -- drop a delivered task, drop part of the uids
            # that name nothing the executor sees, cut the schedule
            dl = set(delivered(case))
            if nt > 1:
                for u in delivered(case):
                    yield dict(case, batches=[b2 for b2 in ([t for t in b if t['uid'] != u] for b in case['batches']) if b2],
                               sched=[c for c in s if not (isinstance(c, list) and c[1] == u)])
            for frac in (2, 10):
                cut = []
                for m in case['cancels']:
                    fill = [v for v in m if v not in dl]
                    drop = set(fill[-(len(fill) // frac):]) if len(fill) >= frac else set()
                    cut.append([v for v in m if v not in drop])
                yield dict(case, cancels=cut)
            for keep in (0, 1, 2, n // 2, n - n // 8):
                if keep < n:
                    yield dict(case, sched=s[:keep])
            return
        if nt > 20:
            # a big batch: cut it from the end (few, expensive candidates)
            for keep in (nt // 2, nt - 10, nt - 1):
                ks = set(delivered(case)[:keep])
                yield dict(case, batches=[b2 for b2 in ([t for t in b if t['uid'] in ks] for b in case['batches']) if b2],
                           cancels=[[v for v in m if v in ks] for m in case['cancels']],
                           sched=[c for c in s if not (isinstance(c, list) and c[1] not in ks)])
            return
        for k in (n // 2, n // 4, 3, 1):
            if k >= 1:
                for i in range(0, n, k):
                    yield dict(case, sched=s[:i] + s[i + k:])
        if len(delivered(case)) > 1:
            for u in delivered(case):
                yield dict(case, batches=[b2 for b2 in ([t for t in b if t['uid'] != u] for b in case['batches']) if b2],
                           cancels=[[v for v in m if v != u] for m in case['cancels']],
                           sched=[c for c in s if not (isinstance(c, list) and c[1] == u)])
        for i in range(len(case.get('cancels', []))):
            yield dict(case, cancels=case['cancels'][:i] + case['cancels'][i + 1:])
        for bi, b in enumerate(case['batches']):
            for ti, t in enumerate(b):
                if t.get('fault', 'none') != 'none':
                    nb = [list(x) for x in case['batches']]
                    nb[bi][ti] = dict(t, fault='none')
                    yield dict(case, batches=nb)
                if t.get('timeout'):
                    nb = [list(x) for x in case['batches']]
                    nb[bi][ti] = dict(t, timeout=False)
                    yield dict(case, batches=nb)

    def describe(self, case):
        return case

    def distribution(self, results):
        d = dict(tasks={}, faults={}, cancel_msgs={}, timeouts=0, quiescent=0, steps=0, anomalies=0)
        for r in results:
            c = r['case']
            n = len(delivered(c))
            d['tasks'][n] = d['tasks'].get(n, 0) + 1
            for b in c['batches']:
                for t in b:
                    d['faults'][t.get('fault', 'none')] = d['faults'].get(t.get('fault', 'none'), 0) + 1
                    d['timeouts'] += 1 if t.get('timeout') else 0
            k = len(c.get('cancels', []))
            d['cancel_msgs'][k] = d['cancel_msgs'].get(k, 0) + 1
            if r['obs']:
                d['quiescent'] += 1 if r['obs']['quiescent'] else 0
                d['steps'] += len(r['obs']['steps'])
                d['anomalies'] += 1 if r['obs']['anomalies'] else 0
        return d


PROP = C07()
