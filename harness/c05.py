"""C05 -- every submitted task ends in one final state that tells the truth.

Implementation under test (harness/c05_impl.py): the REAL BaseComponent.work_cb
/ advance / publish with the REAL work routines of the nine pipeline stations
(tmgr scheduler RoundRobin, tmgr stage-in, agent_0 proxy in/out, agent
stage-in, agent scheduler _schedule_incoming, Popen executor, agent stage-out,
tmgr stage-out), raptor Master._result_cb, and the nine stations chained
through the queues they really push to."""
import itertools

from . import coqlit as L
from .core import Prop, rp_import
from .execside import ExecSide
from .sides import Sides, Spec
from .relay import Relay

RELAY_RULE = Relay.rule
RELAY_TRUSTED = Relay.trusted

COMPS = ['tsched', 'tin', 'a0in', 'ain', 'asched', 'aexec', 'aout', 'a0out', 'tout']
CNAME = dict(tsched='CTSched', tin='CTIn', a0in='CA0In', ain='CAIn', asched='CASched', aexec='CAExec',
             aout='CAOut', a0out='CA0Out', tout='CTOut', other='COther')
STATES = ['NEW', 'TMGR_SCHEDULING_PENDING', 'TMGR_SCHEDULING', 'TMGR_STAGING_INPUT_PENDING', 'TMGR_STAGING_INPUT',
          'AGENT_STAGING_INPUT_PENDING', 'AGENT_STAGING_INPUT', 'AGENT_SCHEDULING_PENDING', 'AGENT_SCHEDULING',
          'AGENT_EXECUTING_PENDING', 'AGENT_EXECUTING', 'AGENT_STAGING_OUTPUT_PENDING', 'AGENT_STAGING_OUTPUT',
          'TMGR_STAGING_OUTPUT_PENDING', 'TMGR_STAGING_OUTPUT', 'DONE', 'FAILED', 'CANCELED']
IN_STATE = dict(tsched='TMGR_SCHEDULING_PENDING', tin='TMGR_STAGING_INPUT_PENDING',
                a0in='AGENT_STAGING_INPUT_PENDING', ain='AGENT_STAGING_INPUT_PENDING',
                asched='AGENT_SCHEDULING_PENDING', aexec='AGENT_EXECUTING_PENDING',
                aout='AGENT_STAGING_OUTPUT_PENDING', a0out='TMGR_STAGING_OUTPUT_PENDING',
                tout='TMGR_STAGING_OUTPUT_PENDING', raptor='AGENT_EXECUTING', generic='AGENT_STAGING_INPUT_PENDING')
BIG = 1 << 20


def st(s):
    return 'T_' + s if s in STATES else 'T_NEW'


def ost(s):
    return 'None' if s is None else '(Some %s)' % st(s)


def oz(n):
    return 'None' if n is None else '(Some %s)' % L.Z(n)


def b(x):
    return L.boolean(bool(x))


def xres(x):
    k = x[0]
    if k == 'exit':
        return '(XExit %s)' % L.Z(x[1])
    return dict(nolauncher='XNoLauncher', launcherr='XLaunchErr', cancel='XCancel', timeout='XTimeout')[k]


def task_lit(s, state):
    fa = s['fa']
    d = '(mkD %s %s %s %s %s %s)' % (dict(none='PNone', known='PKnown', unknown='PUnknown')[s['bind']],
                                     b(s['tin']), b(s['ain']), b(s['aout']), b(s['tout']), b(s['soe']))
    f = '(mkF %s %s %s %s %s %s %s %s)' % (b(fa['assign']), b(fa['tin']), b(fa['ain']),
                                           dict(start='SStart', fail='SFail', cancel='SCancel')[fa['sched']],
                                           xres(fa['exec']), b(fa['stdio']), b(fa['aout']), b(fa['tout']))
    return '(mkT %s %s %s %s %s %s %s)' % (L.Z(s['uid']), st(state), ost(s.get('tgt')), b(s.get('exc')),
                                           oz(s.get('exit')), d, f)


def em_lit(e):
    if e[0] == 'pub':
        _, u, s, g, x, ex, full = e
        return '(OPub %s %s %s %s %s %s)' % (L.Z(u), st(s), ost(g), b(x), oz(ex), b(full))
    if e[0] == 'push':
        _, u, s, g, x, ex, dst = e
        return '(OPush %s %s %s %s %s %s)' % (L.Z(u), st(s), ost(g), b(x), oz(ex), CNAME.get(dst, 'COther'))
    return '(OUnsched %s)' % L.Z(e[1])


def kind_lit(k, ch=()):
    if k == 'D':
        return '(KDir %s)' % L.zlist(ch)
    return dict(A='KAbsent', F='KFile', X='KOdd')[k]


def real_lit(case):
    A = dict(copy='ACopy', link='ALink', move='AMove', transfer='ATransfer', tarball='ATarball')
    out = []
    for t in case['tasks']:
        tr = L.lst(['(%s, %s)' % (L.Z(p), kind_lit(k)) for p, k in t['tree']])
        sds = L.lst(['(mkSD %s %s %s)' % (A[d[0]], L.Z(d[1]), L.Z(d[2])) for d in t['sds']])
        out.append('(%s, %s, %s)' % (L.Z(t['uid']), tr, sds))
    return L.lst(out)


def ret_lit(r):
    return 'ROk' if r == 'ok' else ('RStopped' if r == 'stopped' else 'RRaised')


def params(case):
    thr = case.get('thr', BIG)
    return '(mkP %s %s)' % (b(case.get('hp', True)), L.nat(min(thr, 4000)))


def ev_lit(ev):
    if ev[0] == 'c':
        return '(ECancel %s %s)' % (CNAME[ev[1]], L.Z(ev[2]))
    return '(EDeliver %s %s %s)' % (CNAME[ev[1]], L.nat(min(ev[2], 4000)), b(ev[3]))


class C05Pipe(Prop):
    id = 'C05'
    module = 'c05'
    title = 'Every submitted task ends in one final state that tells the truth'
    props_files = ['Props/C05.v']
    extra_targets = ['Pipeline/Oracle.vo', 'Exec/Oracle.vo']
    model_targets = ['Pipeline/Oracle.vo', 'Exec/Oracle.vo']
    impl_timeout = 1500
    translators = ['states']
    header = 'From RP Require Import Gen.StatesTables Pipeline.Model Pipeline.Stage Pipeline.Oracle.'
    clauses = ['component_survives', 'no_task_lost', 'final_and_forwarded', 'bystander_failed', 'failure_recorded',
               'cancel_requested', 'done_truthful', 'finals_agree', 'released_once', 'staging_truthful',
               'staged_data_present']
    corr_name = ('Pipeline.Model (work_cb / worker phases / run) vs the real BaseComponent.work_cb + advance + '
                 'the work routines of the nine pipeline stations, raptor Master._result_cb, and their chaining')
    rule = ('corpus; per station: random bulks of 1-6 tasks x fault placement (staging error, sandbox lookup error, '
            'no launcher, launch error, exit code, scheduler failure, cancel, timeout) x cancel lists x bulk-level '
            'faults, run through the REAL work_cb; work_cb around a synthetic worker; raptor _result_cb; whole '
            'pipeline runs (nine real components chained, random delivery schedules with cancel requests); '
            'real staging: bulks of 1-3 tasks through ONE real stager (tmgr stage-in/-out _handle_task, agent '
            'stage-in/-out _handle_task_staging) with the REAL StagingHelper (local backend) on a scratch tree -- '
            'every action (COPY, LINK, MOVE, TRANSFER, TARBALL at tmgr stage-in) x source absent/file/directory x '
            'target absent/file/directory/parent missing exhaustively for one directive, repeated directives, and '
            'random lists of 1-4 directives over shared sources and targets; observed: failed or handed on, the '
            'tree afterwards, and whether every enacted directive left a real copy / hard link / the moved source; '
            'non-trivial = a bulk of >= 2 tasks with a fault or cancellation, or a pipeline run of >= 2 tasks '
            'that drains with at least one fault')
    trusted = [
        'translator translators/states.py (state names; Gen/StatesTables.v)',
        'correspondence harness harness/c05.py + harness/c05_impl.py: real components built without __init__, wired by '
        'their real initialize() where possible (tmgr scheduler, all four stagers), in-memory queues/pubsubs, '
        'fault injection at the call-outs (stager, session sandbox lookup, launcher, subprocess, allocation)',
        'abstracted in the pipeline model (modelled in C11 / C01-C04): staging content, placement; the executor station '
        'is one step there, its thread interleavings are the executor side of this check (RP.Exec.Model); ZMQ transport '
        '(reliable FIFO assumed); service tasks at agent_0',
        ExecSide.exec_trusted,
    ]
    assumptions = ['the pilot is alive: no message is lost, every queue is eventually served (reliable FIFO queues)',
                   'one pilot; tasks are not early-bound to a pilot that is never added',
                   'client side: TaskManager._update_tasks as modelled and proved in C06 (States)']
    widen_cases = 1500

    # ------------------------------------------------------------------ generation
    def mk(self, rng, uid, comp, p_fault=0.3, bind=None):
        r = rng.random

        def fl(p=p_fault):
            return r() < p
        x = rng.choice([['exit', 0]] * 5 + [['exit', rng.choice([1, 2, 127, -9])], ['nolauncher'], ['launcherr'],
                                            ['cancel'], ['timeout']]) if fl(0.6) else ['exit', 0]
        s = dict(uid=uid, bind=bind or rng.choice(['none', 'none', 'known', 'known', 'unknown']),
                 tin=fl(0.5), ain=fl(0.5), aout=fl(0.5), tout=fl(0.5), soe=fl(0.3),
                 fa=dict(assign=fl(), tin=fl(), ain=fl(), stdio=fl(0.15), aout=fl(), tout=fl(),
                         sched=rng.choice(['start'] * 5 + ['fail', 'cancel']), exec=x),
                 tgt=None, exc=False, exit=None)
        if comp in ('aout', 'a0out', 'tout'):
            k = rng.choice(['done'] * 4 + ['failed', 'failed', 'canceled', 'odd'])
            if k == 'done':
                s.update(tgt='DONE', exit=0)
            elif k == 'failed':
                s.update(tgt='FAILED', exit=rng.choice([1, 2, 127]), exc=True)
            elif k == 'canceled':
                s.update(tgt='CANCELED')
            elif r() < 0.5 and comp != 'a0out':
                s.update(tgt=None)                       # malformed: no target_state
            else:
                s.update(tgt='FAILED', exc=True)         # launch failure style: no exit code
        return s

    def comp_case(self, rng, comp, nmax=6):
        n = rng.randint(1, nmax)
        uids = rng.sample(range(1, 10), n)
        tasks = [self.mk(rng, u, comp) for u in uids]
        cancel = []
        if rng.random() < 0.35:
            cancel = [rng.choice(uids + [99]) for _ in range(rng.randint(1, 2))]
        case = dict(kind='comp', comp=comp, tasks=tasks, cancel=cancel, bf=False, hp=True, thr=BIG)
        if comp in ('tsched', 'tin'):
            case['bf'] = rng.random() < 0.25
            case['hp'] = rng.random() < 0.85
        if comp == 'tin':
            case['thr'] = rng.choice([1, 2, 3, BIG])
        return case

    def pipe_case(self, rng, nmax=5):
        n = rng.randint(1, nmax)
        uids = rng.sample(range(1, 10), n)
        pf = rng.choice([0.0, 0.1, 0.3])
        tasks = [self.mk(rng, u, 'tsched', p_fault=pf, bind=rng.choice(['none', 'known'])) for u in uids]
        evs = []
        bfp = rng.choice([0, 0, 0.1])
        for _ in range(rng.randint(0, 3)):
            order = COMPS[:]
            rng.shuffle(order)
            for c in order:
                if rng.random() < 0.7:
                    evs.append(['d', c, rng.randint(1, 3), c in ('tsched', 'tin') and rng.random() < bfp])
                if rng.random() < 0.08:
                    evs.append(['c', rng.choice(COMPS), rng.choice(uids)])
        for _ in range(2):
            for c in COMPS:
                evs.append(['d', c, 99, c in ('tsched', 'tin') and rng.random() < bfp])
        return dict(kind='pipe', tasks=tasks, events=evs, thr=rng.choice([1, 2, BIG]), hp=True)

    # real staging: one bulk through one real stager with the real StagingHelper on a scratch tree
    STAGE_ACTS = dict(tin=['transfer', 'transfer', 'tarball'], ain=['copy', 'link', 'move'],
                      aout=['copy', 'link', 'move'], tout=['transfer'])

    def real_task(self, rng, uid, stage, acts=None):
        srcs = [1, 2, 3, 4]
        tgts = [11, 12, 13, 51, 52]
        tree = []
        for p in srcs:
            k = rng.choice(['F', 'F', 'F', 'A', 'D'])
            if k != 'A':
                tree.append([p, k])
        for p in tgts[:3]:
            k = rng.choice(['A', 'A', 'A', 'F', 'D'])
            if k != 'A':
                tree.append([p, k])
        sds = []
        for _ in range(rng.choice([1, 1, 2, 2, 3, 4])):
            a = rng.choice(acts or self.STAGE_ACTS[stage])
            t = rng.choice(tgts)
            if a == 'tarball':
                t = rng.choice([51, 52])          # a tarball member is named by its (absolute) target path
            sp = rng.choice(srcs)
            if a != 'link' and any(d[0] == 'link' and d[1] == sp and d[2] == t for d in sds):
                # inode identity is not in the abstract tree: onto a hard link of the very same file rename() is a
                # no-op that reports success and `cp` refuses ('are the same file'); the combination is left out
                continue
            sds.append([a, sp, t, rng.choice([0, 1, 2, 3])])
        return dict(uid=uid, tree=tree, sds=sds)

    def real_case(self, rng):
        stage = rng.choice(['tin', 'ain', 'ain', 'aout', 'aout', 'tout'])
        uids = rng.sample(range(1, 10), rng.choice([1, 2, 2, 3]))
        return dict(kind='real', stage=stage, tasks=[self.real_task(rng, u, stage) for u in uids])

    def real_exhaustive(self):
        # every action x source kind x target kind (absent / file / directory / parent missing), one directive
        u = 0
        for stage in ('tin', 'ain', 'aout', 'tout'):
            for a in sorted(set(self.STAGE_ACTS[stage])):
                for sk in 'AFD':
                    tasks = []
                    for tk, tp in (('A', 11), ('F', 11), ('D', 11), ('A', 51)):
                        if a == 'tarball' and tp != 51:
                            continue
                        tree = ([[1, sk]] if sk != 'A' else []) + ([[tp, tk]] if tk != 'A' else [])
                        tasks.append(dict(uid=len(tasks) + 1, tree=tree, sds=[[a, 1, tp, 2]]))
                    yield dict(kind='real', stage=stage, tasks=tasks)
                    # twice the same source into the same place (a second move finds no source,
                    # a second link finds the name taken, a second copy overwrites)
                    yield dict(kind='real', stage=stage,
                               tasks=[dict(uid=1, tree=[[1, sk]] if sk != 'A' else [],
                                           sds=[[a, 1, 52, 2], [a, 1, 52, 2]]),
                                      dict(uid=2, tree=([[1, sk]] if sk != 'A' else []) + [[12, 'D']],
                                           sds=[[a, 1, 12, 2], [a, 1, 12, 2]])])

    def cases(self, rng, tier):
        quick = tier == 'quick'
        for c in self.real_exhaustive():
            yield c
        for _ in range(120 if quick else 2500):
            yield self.real_case(rng)
        for comp in COMPS:
            for _ in range(45 if quick else 700):
                yield self.comp_case(rng, comp)
        for _ in range(40 if quick else 400):
            n = rng.randint(1, 5)
            uids = rng.sample(range(1, 10), n)
            yield dict(kind='generic', agent=rng.random() < 0.5, k=rng.randint(0, n), bf=rng.random() < 0.6,
                       cancel=[rng.choice(uids)] if rng.random() < 0.3 else [],
                       tasks=[self.mk(rng, u, 'ain') for u in uids])
        for _ in range(30 if quick else 300):
            n = rng.randint(1, 5)
            tasks = []
            for u in rng.sample(range(1, 10), n):
                s = self.mk(rng, u, 'aexec')
                ex = rng.choice([0, 0, 1, 2, None])
                s.update(exit=ex, exc=(ex != 0), tgt=rng.choice([None, None, None, 'DONE', 'FAILED', 'CANCELED']))
                tasks.append(s)
            yield dict(kind='raptor', tasks=tasks)
        for _ in range(150 if quick else 2500):
            yield self.pipe_case(rng)
        if not quick:
            # exhaustive small scope: one task at every station, all relevant flag combinations
            B = [False, True]
            for comp in COMPS:
                for bits in itertools.product(B, repeat=4):
                    for extra in range(6):
                        s = self.mk(rng, 1, comp, p_fault=0.0, bind='known')
                        f0, f1, d0, d1 = bits
                        s.update(tin=d0, ain=d0, aout=d0, tout=d0, soe=d1)
                        s['fa'].update(assign=f0, tin=f0, ain=f0, aout=f0, tout=f0, stdio=f1,
                                       sched=['start', 'fail', 'cancel'][extra % 3],
                                       exec=[['exit', 0], ['exit', 3], ['nolauncher'], ['launcherr'], ['cancel'],
                                             ['timeout']][extra])
                        if comp in ('aout', 'a0out', 'tout'):
                            s.update([dict(tgt='DONE', exit=0, exc=False), dict(tgt='FAILED', exit=3, exc=True),
                                      dict(tgt='CANCELED', exit=None, exc=False)][extra % 3])
                        for cancel in ([], [1]):
                            yield dict(kind='comp', comp=comp, tasks=[s], cancel=cancel, bf=False, hp=True, thr=BIG)

    # ------------------------------------------------------------------ impl
    def impl_setup(self):
        self.rp = rp_import()
        from .c05_impl import Driver
        self.drv = Driver(self.rp)

    def run_impl(self, case):
        return self.drv.run(case)

    # ------------------------------------------------------------------ coq
    def _tasks(self, case, comp):
        return L.lst([task_lit(s, IN_STATE[comp]) for s in case['tasks']])

    def coq_row(self, case, obs):
        k = case['kind']
        if k == 'pipe':
            steps = L.lst(['(%s, %s)' % (ret_lit(s['ret']), L.lst([em_lit(e) for e in s['em']]))
                           for s in obs['steps']])
            left = L.zlist([u for q in COMPS for u in obs['left'].get(q, [])])
            return '(c05_pipe_row %s %s %s %s %s)' % (
                params(case), self._tasks(case, 'tsched'), L.lst([ev_lit(e) for e in case['events']]), steps, left)
        ems = L.lst([em_lit(e) for e in obs['em']])
        if k == 'real':
            per = L.lst(['(%s, %s, %s)' % (L.Z(o['uid']), L.lst(['(%s, %s)' % (L.Z(p), kind_lit(kd, ch))
                                                                   for p, kd, ch in o['tree']]), b(o['post_ok']))
                         for o in obs['per']])
            return '(c05_real_row %s %s %s %s %s)' % (CNAME[case['stage']], real_lit(case), ret_lit(obs['ret']), ems, per)
        if k == 'comp':
            return '(c05_comp_row %s %s %s %s %s %s %s %s %s)' % (
                CNAME[case['comp']], params(case), b(case['bf']), L.zlist(case['cancel']),
                self._tasks(case, case['comp']), ret_lit(obs['ret']), ems, L.zlist(obs['held']),
                L.zlist(obs['cancel_left']))
        if k == 'generic':
            return '(c05_generic_row %s %s %s %s %s %s %s)' % (
                L.nat(case['k']), b(case['bf']), L.zlist(case['cancel']), self._tasks(case, 'generic'),
                ret_lit(obs['ret']), ems, L.zlist(obs['cancel_left']))
        return '(c05_raptor_row %s %s %s)' % (self._tasks(case, 'raptor'), ret_lit(obs['ret']), ems)

    def model_show(self, case):
        k = case['kind']
        if k == 'real':
            return ('map (fun rt : realtask => let \'(u, tr, l) := rt in (u, stage_ok %s tr l, stage_partial %s tr l)) %s'
                    % (CNAME[case['stage']], CNAME[case['stage']], real_lit(case)))
        if k == 'pipe':
            return 'map (map view) (fst (run_steps %s (init %s) %s))' % (
                params(case), self._tasks(case, 'tsched'), L.lst([ev_lit(e) for e in case['events']]))
        if k == 'comp':
            return 'let r := work_cb %s %s %s %s %s in (fst r, map view (snd r))' % (
                CNAME[case['comp']], params(case), L.zlist(case['cancel']), self._tasks(case, case['comp']),
                b(case['bf']))
        if k == 'generic':
            return 'let r := generic_cb %s %s %s %s in (fst r, map view (snd r))' % (
                L.nat(case['k']), L.zlist(case['cancel']), self._tasks(case, 'generic'), b(case['bf']))
        return 'map view (raptor_result_cb %s)' % self._tasks(case, 'raptor')

    # ------------------------------------------------------------------ bookkeeping
    def _faulty(self, case):
        if case['kind'] == 'real':
            return any(k != 'F' for t in case['tasks'] for _, k in t['tree']) or \
                any(len([1 for p, _ in t['tree'] if p == d[1]]) == 0 for t in case['tasks'] for d in t['sds'])
        for s in case['tasks']:
            fa = s['fa']
            if any(fa[k] for k in ('assign', 'tin', 'ain', 'stdio', 'aout', 'tout')) or fa['sched'] != 'start' \
                    or fa['exec'] != ['exit', 0]:
                return True
        return False

    def nontrivial(self, case, obs):
        if len(case['tasks']) < 2:
            return False
        if case['kind'] == 'pipe':
            return not obs['left'] and (self._faulty(case) or any(e[0] == 'c' for e in case['events']))
        return bool(case.get('cancel')) or bool(case.get('bf')) or self._faulty(case)

    def signature(self, case, obs, clause):
        k = case['kind']
        if k == 'pipe':
            at = sorted({e[1] for e in case['events'] if e[0] == 'd' and e[3]})
            site = 'tsched' if 'tsched' in at else '+'.join(at)
            return '%s:pipe:%s' % (clause, 'bulk_fault@' + site if at else 'per_task_faults')
        if k == 'real':
            return '%s:%s:real_staging' % (clause, case['stage'])
        site = case['comp'] if k == 'comp' else k
        return '%s:%s:%s' % (clause, site, 'bulk_fault' if case.get('bf') else 'per_task_faults')

    def shrink(self, case):
        ts = case['tasks']
        if len(ts) > 1:
            for i in range(len(ts)):
                c = dict(case, tasks=ts[:i] + ts[i + 1:])
                if case['kind'] == 'generic':
                    c['k'] = min(c['k'], len(c['tasks']))
                yield c
        if case['kind'] == 'pipe':
            evs = case['events']
            for i in range(len(evs)):
                yield dict(case, events=evs[:i] + evs[i + 1:])
        else:
            for i in range(len(case.get('cancel', []))):
                yield dict(case, cancel=case['cancel'][:i] + case['cancel'][i + 1:])
        if case['kind'] == 'real':
            for i, t in enumerate(ts):
                for j in range(len(t['sds'])):
                    if len(t['sds']) > 1:
                        yield dict(case, tasks=ts[:i] + [dict(t, sds=t['sds'][:j] + t['sds'][j + 1:])] + ts[i + 1:])
                for j in range(len(t['tree'])):
                    yield dict(case, tasks=ts[:i] + [dict(t, tree=t['tree'][:j] + t['tree'][j + 1:])] + ts[i + 1:])
            return
        # drop faults and staging needs one at a time
        for i, s in enumerate(ts):
            for key in ('assign', 'tin', 'ain', 'stdio', 'aout', 'tout'):
                if s['fa'][key]:
                    yield dict(case, tasks=ts[:i] + [dict(s, fa=dict(s['fa'], **{key: False}))] + ts[i + 1:])
            for key in ('tin', 'ain', 'aout', 'tout', 'soe'):
                if s[key]:
                    yield dict(case, tasks=ts[:i] + [dict(s, **{key: False})] + ts[i + 1:])

    def distribution(self, results):
        kinds, comps, faults, sizes = {}, {}, 0, []
        drained = 0
        for r in results:
            c = r['case']
            kinds[c['kind']] = kinds.get(c['kind'], 0) + 1
            if c['kind'] == 'comp':
                comps[c['comp']] = comps.get(c['comp'], 0) + 1
            sizes.append(len(c['tasks']))
            faults += 1 if self._faulty(c) else 0
            if c['kind'] == 'pipe' and r['obs'] and not r['obs']['left']:
                drained += 1
        return dict(kinds=kinds, per_station=comps, cases_with_fault=faults, pipeline_runs_drained=drained,
                    mean_tasks=round(sum(sizes) / max(1, len(sizes)), 2))


RELAY_C05 = ['forwarded_at_most_once', 'exactly_one_place', 'no_forward_after_final', 'register_relays_all',
             'unregister_fails_backlog', 'seen_and_workers_scheduled_here', 'no_wait_for_registered',
             'no_wait_for_gone_master', 'linearizable']
RELAY_VO = ['Relay/Oracle.vo', 'Relay/Proofs.vo', 'Relay/History.vo', 'Relay/Frame.vo', 'Relay/OracleProofs.vo']


class C05(Sides, ExecSide, C05Pipe):
    exec_sel = ['handed_on_once', 'not_collected_and_canceled', 'outcome_attached', 'exit_code_truthful']
    exec_n = (100, 2000)
    # the client's end of the pipeline: what the application's Task objects end up showing, under any delivery
    # order of the notifications (the C06 check: real TaskManager._update_tasks / Task._update, States model)
    side_specs = [Spec('client', 'c06', ['progression', 'final_state_consistent', 'no_exception']),
                  # the tmgr scheduler's entry points called from its three threads at once (the C12 interleaving
                  # cases): every submitted task is forwarded once or waiting, and no thread gets stuck
                  Spec('tsched', 'c12', ['lin_terminates', 'lin_exactly_once'],
                       only=lambda c: isinstance(c, dict) and 'inter' in c),
                  # raptor tasks at the agent scheduler: forwarded to a raptor master, kept in the backlog until one
                  # registers, failed when it unregisters, canceled in the backlog -- handed on exactly once
                  # (harness/relay.py: real work / _schedule_incoming / control_cb, RP.Relay.Model)
                  Spec('relay', 'relay', RELAY_C05)]
    exec_total = len(C05Pipe.clauses) + len(exec_sel)
    clauses = (C05Pipe.clauses + ['exec:' + c for c in exec_sel] + side_specs[0].clause_names()
               + side_specs[1].clause_names() + side_specs[2].clause_names())
    extra_targets = C05Pipe.extra_targets + ['States/Oracle.vo', 'TmgrSched/Oracle.vo', 'TmgrSched/Lin.vo'] + RELAY_VO
    model_targets = C05Pipe.model_targets + ['States/Oracle.vo', 'TmgrSched/Oracle.vo', 'TmgrSched/Lin.vo',
                                             'Relay/Oracle.vo']
    rule = (C05Pipe.rule + '; ' + ExecSide.exec_rule + '; client side: histories of notification batches over 1-4 '
            'tasks with duplicates, reordering, gaps and contradictory finals (as for C06); ' + RELAY_RULE)
    trusted = C05Pipe.trusted + RELAY_TRUSTED
    corr_name = C05Pipe.corr_name + '; ' + Relay.corr_name


PROP = C05()
