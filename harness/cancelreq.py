"""The client side of a cancel request (embedded into C08 as `client:*`).

Implementation under test: the real TaskManager.cancel_tasks / Task.cancel
(objects built without __init__, `publish` is a recorder), the published
message after a JSON round trip delivered to the real BaseComponent._control_cb
of a component (cancel list before / after)."""
import json
import threading
from unittest import mock

from . import coqlit as L
from .core import Prop, rp_import


def uid_s(u):
    return 'task.%06d' % u


def uid_i(s):
    try:
        return int(str(s).split('.')[1])
    except Exception:                                                                            # noqa
        return None


class CancelReq(Prop):
    id = 'C08'
    module = 'cancelreq'
    title = 'client side of a cancel request'
    props_files = []
    extra_targets = ['CancelReq/Oracle.vo', 'CancelReq/Proofs.vo']
    model_targets = ['CancelReq/Oracle.vo']
    translators = []
    header = 'From RP Require Import CancelReq.Model CancelReq.Oracle.'
    clauses = ['request_names_exactly_the_named_tasks', 'component_registers_exactly_the_named_tasks']
    corr_name = 'CancelReq.Model(request_uids/register) vs TaskManager.cancel_tasks / Task.cancel / BaseComponent._control_cb'

    def corpus(self):
        return []

    def cases(self, rng, tier):
        # every form of the argument the API documents (`str | list[str]`, default: all)
        for how in ('none', 'one', 'task', 'list1', 'list', 'empty'):
            for nt in (1, 3):
                yield {'kind': 'cancelreq', 'tasks': list(range(1, nt + 1)), 'how': how, 'uids': [nt] if how != 'list' else
                       list(range(1, nt + 1)), 'cl0': []}
        for _ in range(40 if tier == 'quick' else 600):
            nt = rng.randint(1, 6)
            tasks = list(range(1, nt + 1))
            how = rng.choice(['none', 'one', 'task', 'list1', 'list', 'list', 'empty'])
            k = 1 if how in ('one', 'task', 'list1') else rng.randint(1, nt + 1)
            uids = [rng.choice(tasks + [99]) for _ in range(k)]
            cl0 = [rng.choice(tasks + [77]) for _ in range(rng.randint(0, 3))]
            yield {'kind': 'cancelreq', 'tasks': tasks, 'how': how, 'uids': uids, 'cl0': cl0}

    def impl_setup(self):
        self.rp = rp_import()

    def run_impl(self, case):
        from radical.pilot.task import Task
        from radical.pilot.task_manager import TaskManager
        from radical.pilot.utils.component import BaseComponent
        log = mock.MagicMock()
        with mock.patch.object(TaskManager, '__init__', return_value=None):
            tm = TaskManager()
        tm._tasks_lock = threading.RLock()
        tm._log, tm._uid, tm._tasks = log, 'tmgr.0000', {}
        msgs = []
        tm.publish = lambda topic, msg: msgs.append(msg)
        for u in case['tasks']:
            with mock.patch.object(Task, '__init__', return_value=None):
                t = Task()
            t._uid, t._tmgr, t._log = uid_s(u), tm, log
            tm._tasks[t._uid] = t
        how, uids = case['how'], [uid_s(u) for u in case['uids']]
        exc = None
        try:
            if how == 'none':
                tm.cancel_tasks()
            elif how == 'empty':
                tm.cancel_tasks([])
            elif how == 'one':
                tm.cancel_tasks(uids[0])
            elif how == 'task':
                t = tm._tasks.get(uids[0])
                if t is None:
                    tm.cancel_tasks(uids[0])
                else:
                    t.cancel()
            else:
                tm.cancel_tasks(list(uids))
        except BaseException as e:                                                               # noqa
            exc = type(e).__name__
        obs = {'exc': exc, 'n_msgs': len(msgs), 'published': None, 'cl1': None}
        if len(msgs) != 1:
            return obs
        msg = json.loads(json.dumps(msgs[0]))                        # what travels
        pu = (msg.get('arg') or {}).get('uids')
        if isinstance(pu, list) and all(isinstance(x, str) and uid_i(x) is not None for x in pu):
            obs['published'] = [uid_i(x) for x in pu]
        obs['cmd'] = msg.get('cmd')
        # delivery to a component
        with mock.patch.object(BaseComponent, '__init__', return_value=None):
            c = BaseComponent()
        c._log, c._uid = log, 'agent.staging.input.0000'
        c._cancel_lock = threading.RLock()
        c._cancel_list = [uid_s(u) for u in case['cl0']]
        c.control_cb = lambda topic, msg: None
        try:
            c._control_cb('control_pubsub', msg)
        except BaseException as e:                                                               # noqa
            obs['exc'] = type(e).__name__
        obs['cl1'] = [uid_i(x) if uid_i(x) is not None else -1 for x in c._cancel_list]
        return obs

    def coq_row(self, case, obs):
        how = case['how']
        if how in ('none',):
            a = 'ANone'
        elif how == 'empty':
            a = '(AMany [])'
        elif how in ('one', 'task'):
            a = '(AOne %s)' % L.Z(case['uids'][0])
        else:
            a = '(AMany %s)' % L.zlist(case['uids'])
        pub = 'None' if obs.get('published') is None or obs.get('exc') or obs.get('cmd') != 'cancel_tasks' \
            else '(Some %s)' % L.zlist(obs['published'])
        return '(cancelreq_row %s %s %s %s %s)' % (L.zlist(case['tasks']), a, pub, L.zlist(case['cl0']),
                                                   L.zlist(obs.get('cl1') or []))

    def model_show(self, case):
        return None

    def nontrivial(self, case, obs):
        return case['how'] in ('one', 'task', 'none', 'empty') or len(case['uids']) > 1

    def signature(self, case, obs, clause):
        return '%s:TaskManager.cancel_tasks:%s' % (clause, case['how'])

    def shrink(self, case):
        if len(case['tasks']) > 1 and case['how'] in ('none', 'empty'):
            yield dict(case, tasks=case['tasks'][:-1])
        if case['cl0']:
            yield dict(case, cl0=[])
        if len(case['uids']) > 1 and case['how'] == 'list':
            yield dict(case, uids=case['uids'][:-1])

    def distribution(self, results):
        d = {}
        for r in results:
            d[r['case']['how']] = d.get(r['case']['how'], 0) + 1
        return {'argument_forms': d}


PROP = CancelReq()
