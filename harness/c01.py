"""C01 -- pilot resources are never oversubscribed.
Scheduler side  : the agent scheduler's node map over random histories (harness/schedlib.py).
Application side: `Pilot.nodelist` (resource_config.NodeList / Node), the helper with which an application chooses
the placements it supplies in TaskDescription.slots -- sequences of find_slots / release_slots on one thread and
pairs of calls on two threads (harness/appslots.py)."""
from . import schedlib as SL
from .core import Prop, rp_import
from .sides import Sides, Spec


class SchedProp(Prop):
    """Common part of the scheduler properties C01..C04."""
    extra_targets = ['Sched/Oracle.vo']
    model_targets = ['Sched/Oracle.vo']
    header = 'From RP Require Import Sched.Model Sched.Oracle.'
    corr_name = ('Sched.Model.run vs the real loop AgentSchedulingComponent._schedule_tasks on a Continuous '
                 'scheduler (work_cb intake, _schedule_waitpool, _schedule_incoming, _unschedule_completed, '
                 'schedule_task, _find_resources, _change_slot_states), snapshot after every iteration')
    row_fn = 'c01_row'
    preplaced_share = 0.25
    trusted = [
        'correspondence harness harness/schedlib.py: real Continuous instance built without __init__, real loop '
        '_schedule_tasks driven through a _term stub, in-memory queues, lazy_bisect decisions recorded and replayed '
        'in the model (ru.lazy_bisect itself is library code, not modelled: theorems hold for every strategy)',
        'modelled, not verified: raptor forwarding, partitions (PRTE), the 512-message bulk limit of '
        '_unschedule_completed, sleeping/timeouts of the loop, process separation of component and scheduler '
        '(one cancel list instead of two)',
        'GPU shares are generated as multiples of 1/64 so that float arithmetic is exact',
    ]
    assumptions = ['unschedule messages name tasks that hold resources, at most once each (release discipline; the '
                   "executor's duty, property C07); an 'undisciplined' case stream is compared with the model only",
                   'node indices are unique (C18)']

    def cases(self, rng, tier):
        n = 260 if tier == 'quick' else 12000
        for i in range(n):
            r = rng.random()
            yield SL.gen_case(rng, size='small' if r < 0.7 else 'large',
                              preplaced=rng.random() < self.preplaced_share,
                              disciplined=rng.random() < 0.93)
        if tier == 'thorough':
            yield from self.small_scope(6)

    @staticmethod
    def small_scope(maxlen=5):
        '''every operation sequence of length <= maxlen over a 2-node x 2-core x 1-GPU pilot and three task
        shapes (exhaustive small-scope enumeration)'''
        import itertools
        cfg = {'cpn': 2, 'gpn': 1, 'lfs': 100, 'mem': 0, 'scattered': True}
        nodes = [{'cores': [0, 0], 'gpus': [0]}, {'cores': [0, 0], 'gpus': [0]}]
        shapes = {'a1': dict(ranks=1, cpr=1, gpr=0, lfs=60, prio=0),
                  'a2': dict(ranks=2, cpr=1, gpr=32, lfs=0, prio=0),
                  'a3': dict(ranks=1, cpr=2, gpr=64, lfs=0, prio=1)}
        alphabet = ['a1', 'a2', 'a3', 'rel', 'can', 'it']
        for k in range(1, maxlen + 1):
            for seq in itertools.product(alphabet, repeat=k):
                if seq[0] in ('rel', 'can', 'it'):
                    continue
                ops, uid = [], 0
                for x in seq:
                    if x in shapes:
                        uid += 1
                        r = {'uid': uid, 'ranks': 1, 'cpr': 1, 'gpr': 0, 'lfs': 0, 'mem': 0, 'rpn': 0, 'prio': 0,
                             'colo': None, 'excl': False, 'env': None, 'slots': None}
                        r.update(shapes[x])
                        ops.append(['arrive', [r]])
                    elif x == 'rel':
                        ops.append(['unsched', list(range(1, uid + 1))])
                    elif x == 'can':
                        ops.append(['cancel', [uid]])
                    else:
                        ops.append(['iter'])
                ops += [['iter'], ['iter']]
                yield {'kind': 'sched', 'cfg': cfg, 'nodes': nodes, 'ops': ops, 'disciplined': True, 'names': 'same'}

    def impl_setup(self):
        self.rp = rp_import()
        self.drv = SL.SchedDriver(self.rp)

    def run_impl(self, case):
        return self.drv.run(case)

    def coq_row(self, case, obs):
        row = '(%s %s %s %s %s)' % (self.row_fn, SL.c_cfg(case['cfg']), SL.c_nodes0(case),
                                    SL.c_ops(obs['eff'], obs['snaps']), SL.c_iters(obs['eff'], obs['snaps']))
        if SL.has_bad_occ(obs['snaps']) or obs.get('died'):
            row = '(false :: tl %s)' % row
        if not case.get('disciplined', True):
            # releases of tasks that hold nothing: compare with the model only
            row = '(hd false %s :: map (fun _ => true) (tl %s))' % (row, row)
        return row

    def model_show(self, case):
        return None

    def nontrivial(self, case, obs):
        # >= 2 tasks held at the same time at some point, and >= 1 task waited
        held, maxheld, waited = set(), 0, False
        pend = []
        k = 0
        for o in obs['eff']:
            if o[0] == 'unsched':
                pend.extend(u for u, _ in o[1])
            elif o[0] == 'iter' and k < len(obs['snaps']):
                sn = obs['snaps'][k]
                k += 1
                for e in sn['events']:
                    if e[0] == 'started':
                        held.add(e[1])
                maxheld = max(maxheld, len(held))
                for u in pend:
                    held.discard(u)
                pend = []
                if sn['pool']:
                    waited = True
        return maxheld >= 2 and waited

    def signature(self, case, obs, clause):
        return clause

    def shrink(self, case):
        ops = case['ops']
        for i in range(len(ops)):
            yield dict(case, ops=ops[:i] + ops[i + 1:])
        for i, o in enumerate(ops):
            if o[0] == 'arrive' and len(o[1]) > 1:
                for j in range(len(o[1])):
                    yield dict(case, ops=ops[:i] + [['arrive', o[1][:j] + o[1][j + 1:]]] + ops[i + 1:])
        if len(case['nodes']) > 1:
            yield dict(case, nodes=case['nodes'][:-1])

    def distribution(self, results):
        n_ops, n_it, pre, undis, kinds = [], [], 0, 0, {}
        for r in results:
            c = r['case']
            n_ops.append(len(c['ops']))
            if not c.get('disciplined', True):
                undis += 1
            if any(q.get('slots') for o in c['ops'] if o[0] == 'arrive' for q in o[1]):
                pre += 1
            if r['obs']:
                n_it.append(len(r['obs']['snaps']))
                for sn in r['obs']['snaps']:
                    for e in sn['events']:
                        kinds[e[0] + (':' + e[2] if e[0] == 'failed' else '')] = \
                            kinds.get(e[0] + (':' + e[2] if e[0] == 'failed' else ''), 0) + 1
        return dict(cases=len(results), mean_ops=round(sum(n_ops) / max(1, len(n_ops)), 1),
                    mean_iterations=round(sum(n_it) / max(1, len(n_it)), 1),
                    with_application_supplied_slots=pre, undisciplined=undis, events=kinds)


class C01Sched(SchedProp):
    id = 'C01'
    module = 'c01'
    props_files = ['Props/C01.v']
    clauses = ['cores_disjoint', 'gpu_shares_le_1', 'lfs_mem_within_node', 'only_usable_resources',
               'gpu_not_shared_between_tasks',
               'app_supplied:cores_disjoint', 'app_supplied:gpu_shares_le_1', 'app_supplied:lfs_mem_within_node',
               'app_supplied:only_usable_resources', 'app_supplied:gpu_not_shared_between_tasks']
    row_fn = 'c01_row'
    rule = ('random histories (1-4 nodes x 1-8 cores x 0-3 GPUs, blocked cores/GPUs, lfs/mem; arrivals with ranks, '
            'cores/GPU shares/lfs/mem per rank, ranks_per_node, colocate/exclusive tags, priorities, named envs, '
            'application-supplied slots; cancels, releases, iterations); non-trivial = at some point >= 2 tasks hold '
            'resources simultaneously and >= 1 task waited')


APP_TRUSTED = ('application side: harness/appslots.py (real resource_config.Node / NodeList objects; pairs of calls on '
               'two real threads, one held by a line tracer after its k-th line, harness/interleave.py); answers and '
               'the complete node list after every call compared with RP.AppSlots.Model.run inside Coq; occupations '
               'generated as multiples of 1/64 (exact floats)')
APP_RULE = ('application side: node lists of 1-4 nodes x 1-6 cores x 0-3 GPUs (DOWN / busy / partly used resources, '
            'lfs/mem, unique and repeated node names, node ids equal to and different from list positions), sequences '
            'of 2-16 find_slots / release_slots / verify / Node-level calls')


class C01(Sides, C01Sched):
    # the placements an application supplies come from Pilot.nodelist: no sequence of find_slots / release_slots
    # hands out more than a node has, and two threads asking at once do not get the same cores
    side_specs = [Spec('app', 'appslots', ['no_oversubscription', 'linearizable'],
                       only=lambda c: isinstance(c, dict) and c.get('kind') in ('seq', 'pair'))]
    clauses = C01Sched.clauses + side_specs[0].clause_names()
    extra_targets = C01Sched.extra_targets + ['AppSlots/Oracle.vo', 'AppSlots/Proofs.vo']
    model_targets = C01Sched.model_targets + ['AppSlots/Oracle.vo']
    trusted = C01Sched.trusted + [APP_TRUSTED]
    rule = C01Sched.rule + '; ' + APP_RULE + '; pairs of find_slots / release_slots calls in two threads at every hold point'


PROP = C01()
