"""C19 -- descriptions and payloads survive normalisation and transport.

Implementation under test (real code from REPO/src, nothing re-implemented):
  * for every task description that uses deprecated names: its twin (each deprecated attribute
    replaced by the current one, converted) is verified too and must give the same result
  * TaskDescription(from_dict) / .as_dict() / .verify()  (ru.TypedDict.verify +
    TaskDescription._verify), twice, and the dict round trip before/after verify;
    the same for PilotDescription
  * utils.misc.convert_slots_to_new / convert_slots_to_old, Slot(from_dict), Slot.as_dict
  * PythonTask(func, args, kwargs), rp.pythontask(f)(...), PythonTask.get_func_attr
    with dill/pickle really executed, and the decoded function really called; for stateful
    callables in sequences with state changes between decoration, task creations and decoding,
    the reference result being taken when the task is created; the args list and kwargs dict are
    ONE object each, refilled for every encoding and spoiled before decoding.
  * sequences of descriptions in one process (state carried across calls): see _run_dseq.
"""
import copy
import functools
import itertools
import math
import os
import pickle
import re
import sys
import threading

from . import coqlit as L
from .core import Prop, rp_import, COQ


# ------------------------------------------------------------------------------
# the generated table, as the generator needs it
#
_TABLE = None


def table():
    global _TABLE
    if _TABLE is None:
        txt = open(os.path.join(COQ, 'Gen', 'Descr.v')).read()
        pdtxt = open(os.path.join(COQ, 'Gen', 'PDescr.v')).read()
        pat = r'^\s*\("([a-z_]+)"%string, \((F[A-Za-z]+)([^;\n]*)\)\)[;\]]'
        schema = {k: (f, rest.strip()) for k, f, rest in re.findall(pat, txt, re.M)}
        pd_schema = {k: (f, rest.strip()) for k, f, rest in re.findall(pat, pdtxt, re.M)}
        sect = txt[txt.index('td_rules'):txt.index('td_aliases')]
        rules = []
        for ms, cs in re.findall(r'\(\[([^\]]*)\], \[([^\]]*)\]\)', sect):
            rules.append((re.findall(r'"([^"]*)"%string', ms),
                          [(f, b == 'true') for f, b in re.findall(r'\("([^"]*)"%string, (true|false)\)', cs)]))
        aliases = re.findall(r'mkAlias "([a-z_]+)"%string "([a-z_]+)"%string (CId|CFloat) "([a-z_]+)"%string', txt)
        _TABLE = dict(schema=schema, rules=rules, aliases=aliases, pd_schema=pd_schema)
    return _TABLE


# ------------------------------------------------------------------------------
# values:  python  <->  tagged JSON  ->  Coq literal
#
def tag_atom(v):
    if v is None:
        return ['n']
    if isinstance(v, bool):
        return ['b', v]
    if isinstance(v, int):
        return ['i', v]
    if isinstance(v, float):
        h = v * 2
        if h != int(h):
            raise ValueError('float %r is not a multiple of 0.5' % v)
        return ['f', int(h)]
    if isinstance(v, str):
        return ['s', v]
    raise ValueError('value outside the modelled domain: %r' % (v,))


def tag_val(v):
    if type(v) is list:
        return ['L', [tag_atom(x) for x in v]]
    if type(v) is dict:
        for k in v:
            if not isinstance(k, str):
                raise ValueError('non-string dict key %r' % (k,))
        return ['D', [[k, tag_atom(x)] for k, x in v.items()]]
    return tag_atom(v)


def tag_descr(data):
    return [[k, tag_val(v)] for k, v in data.items()]


def coq_atom(t):
    k = t[0]
    if k == 'n': return 'ANone'
    if k == 'b': return '(ABool %s)' % L.boolean(t[1])
    if k == 'i': return '(AInt %s)' % L.Z(t[1])
    if k == 'f': return '(AFlt %s)' % L.Z(t[1])
    if k == 's': return '(AStr %s)' % L.string(t[1])
    raise ValueError(t)


def coq_val(t):
    if t[0] == 'L':
        return '(VL %s)' % L.lst([coq_atom(x) for x in t[1]])
    if t[0] == 'D':
        return '(VD %s)' % L.lst([L.pair(L.string(k), coq_atom(x)) for k, x in t[1]])
    return '(VA %s)' % coq_atom(t)


def coq_descr(td):
    return L.lst([L.pair(L.string(k), coq_val(v)) for k, v in td])


def errname(e):
    return e if e in ('KeyError', 'TypeError', 'ValueError', 'AttributeError', 'SerError') else 'OtherError'


def exc_name(e):
    if type(e).__name__ == 'SerializationError':
        return 'SerError'
    for t in (KeyError, TypeError, ValueError, AttributeError):
        if isinstance(e, t):
            return t.__name__
    return 'OtherError'


# ------------------------------------------------------------------------------
# functions shipped in envelopes (args: scalars; every one accepts *a, **k)
#
def f_echo(*a, **k):
    return [list(a), sorted(k.items(), key=str)]


def f_count(*a, **k):
    return len(a) * 100 + len(k)


def f_first(x=None, *a, **k):
    return x


def f_sqrt(*a, **k):
    return [math.sqrt(abs(x)) for x in a if isinstance(x, (int, float)) and not isinstance(x, bool)]


def _scale(factor, *a, **k):
    return [x * factor for x in a if isinstance(x, (int, float))] + sorted(k)


def _closure(n):
    def inner(*a, **k):
        return (n, len(a), sorted(k))
    return inner


class Callable_:
    def __init__(self, tagv):
        self.tagv = tagv

    def __call__(self, *a, **k):
        return (self.tagv, list(a), sorted(k.items(), key=str))


FUNCS = {
    'echo': f_echo,
    'count': f_count,
    'first': f_first,
    'sqrt': f_sqrt,
    'lambda': lambda *a, **k: (a, tuple(sorted(k))),
    'partial': functools.partial(_scale, 3),
    'closure': _closure(7),
    'object': Callable_('obj'),
    'builtin': dict,
    'notcallable': 5,
    'notcallable_str': 'f_echo',
}


# ------------------------------------------------------------------------------
# STATEFUL callables: factories returning (callable, set_state).  The state is pickled BY VALUE
# with the callable (closure cell / dict in a cell, bound instance, partial argument, mutable
# keyword default, attribute of a callable object); every callable reports the state it
# carries as the first element of its result, so the harness can tell which function VALUE
# came out of the envelope.  All nested, so that dill pickles them by value.
#
def _mk_closure_dict():
    cfg = {'state': 0}

    def scaled(*a, **k):
        return [cfg['state'], list(a), sorted(k.items(), key=str)]

    def setst(v):
        cfg['state'] = v
    return scaled, setst


def _mk_closure_cell():
    n = 0

    def counter(*a, **k):
        return [n, len(a), sorted(k)]

    def setst(v):
        nonlocal n
        n = v
    return counter, setst


class Acc(object):
    def __init__(self):
        self.items = [0]

    def total(self, *a, **k):
        return [sum(self.items), list(a), sorted(k.items(), key=str)]


def _mk_bound_method():
    acc = Acc()

    def setst(v):
        acc.items = [v - 1, 1]
    return acc.total, setst


def _with_cfg(cfg, *a, **k):
    return [cfg['state'], list(a), sorted(k)]


def _mk_partial():
    cfg = {'state': 0}

    def setst(v):
        cfg['state'] = v
    return functools.partial(_with_cfg, cfg), setst


def _mk_mutable_default():
    def remembering(*a, _acc=[0], **k):
        return [_acc[0], list(a), sorted(k.items(), key=str)]

    def setst(v):
        remembering.__kwdefaults__['_acc'][0] = v
    return remembering, setst


def _mk_object():
    o = Callable_(0)

    def call(*a, **k):                      # closure over an object with state
        return [o.tagv, list(a), sorted(k)]

    def setst(v):
        o.tagv = v
    return call, setst


STATEFUL = {
    'closure_dict': _mk_closure_dict,
    'closure_cell': _mk_closure_cell,
    'bound_method': _mk_bound_method,
    'partial': _mk_partial,
    'mutable_default': _mk_mutable_default,
    'object': _mk_object,
}
POISON = -99


# ------------------------------------------------------------------------------
# callables of every KIND the property quantifies over ("every picklable function"):
# shape x scope of the defining class/function x class attribute.
#   scope  importable : lives in this module (dill and pickle ship a name)
#          main       : lives in __main__ like in a user script (dill ships it by value)
#          local      : defined inside a function (only by value is possible)
#   attr   none | generator | lock | file : a class attribute which (perhaps) cannot be
#          pickled by value -- then only the by-reference attempt of serialize_obj can work
#
_K_SRC = """
class {name}(object):
{attr}
    def __init__(self, factor):
        self.factor = factor

    def __call__(self, *a, **k):
        return ['call', self.factor, list(a), sorted(k.items(), key=str)]

    def shifted(self, *a, **k):
        return ['shifted', self.factor, len(a), sorted(k)]
"""
_K_ATTR = {'none': '    pass',
           'generator': '    _ids = (i for i in range(1000))',
           'lock': '    _lock = __import__("threading").Lock()',
           'file': '    _fh = open(__import__("os").devnull)'}
_KLOCAL = {}

# importable: genuine module-level classes of this module, in every process
for _attr in _K_ATTR:
    exec(_K_SRC.format(name='KI_' + _attr, attr=_K_ATTR[_attr]), globals())


def _main_ns():
    """the namespace of the running script: what is defined there is `in __main__` for dill and pickle"""
    return sys.modules['__main__'].__dict__


def _local_class(attr):
    class KL(object):
        def __init__(self, factor):
            self.factor = factor

        def __call__(self, *a, **k):
            return ['call', self.factor, list(a), sorted(k.items(), key=str)]

        def shifted(self, *a, **k):
            return ['shifted', self.factor, len(a), sorted(k)]
    if attr == 'generator':
        KL._ids = (i for i in range(1000))
    elif attr == 'lock':
        KL._lock = threading.Lock()
    elif attr == 'file':
        KL._fh = open(os.devnull)
    return KL


def make_class(scope, attr):
    if scope == 'importable':
        return globals()['KI_' + attr]
    if scope == 'main':
        ns = _main_ns()
        if 'KM_' + attr not in ns:
            exec(_K_SRC.format(name='KM_' + attr, attr=_K_ATTR[attr]), ns)
        return ns['KM_' + attr]
    if attr not in _KLOCAL:
        _KLOCAL[attr] = _local_class(attr)
    return _KLOCAL[attr]


def _main_function():
    ns = _main_ns()
    if 'fmain' not in ns:
        exec("def fmain(*a, **k):\n    return ['fmain', list(a), sorted(k.items(), key=str)]\n", ns)
    return ns['fmain']


def _local_function():
    def flocal(*a, **k):
        return ['flocal', len(a), sorted(k)]
    return flocal


def _rebound_closure():
    n = 1

    def late(*a, **k):
        return ['late', n, list(a), sorted(k)]
    n = 42                                   # free variable rebound after the def
    return late


def _defaults_function():
    def dflt(x=3, *a, y=(1, 2), **k):
        return ['dflt', x, y, list(a), sorted(k)]
    return dflt


SHAPES_FUNC = {
    ('function', 'importable'): lambda: f_echo,
    ('function', 'main'): _main_function,
    ('function', 'local'): _local_function,
    ('lambda', 'local'): lambda: (lambda *a, **k: ['lambda', list(a), sorted(k)]),
    ('closure', 'local'): lambda: _closure(7),
    ('closure_rebound', 'local'): _rebound_closure,
    ('defaults', 'local'): _defaults_function,
    ('partial_func', 'importable'): lambda: functools.partial(_scale, 3),
    ('builtin', 'importable'): lambda: max,
}
SHAPES_CLS = ('instance', 'bound', 'partial_inst')
SCOPES = ('importable', 'main', 'local')
ATTRS = ('none', 'generator', 'lock', 'file')


def build_callable(shape, scope, attr):
    if (shape, scope) in SHAPES_FUNC:
        return SHAPES_FUNC[(shape, scope)]()
    o = make_class(scope, attr)(3)
    if shape == 'instance':
        return o
    if shape == 'bound':
        return o.shifted
    if shape == 'partial_inst':
        return functools.partial(o, 2)
    raise ValueError(shape)


def all_kinds():
    for (shape, scope) in SHAPES_FUNC:
        yield shape, scope, 'none'
    for shape in SHAPES_CLS:
        for scope in SCOPES:
            for attr in ATTRS:
                yield shape, scope, attr


# ------------------------------------------------------------------------------
# repeated decoding of one string
#
class Stateful(object):
    """callable whose state travels in the envelope; it reports state, arguments and keywords"""
    def __init__(self, state):
        self.state = state

    def __call__(self, *a, **k):
        return [self.state, [copy.deepcopy(x) for x in a], sorted((kk, repr(v)) for kk, v in k.items())]


def mpi_kw(msg, comm=None):
    return '%s:%s' % (msg, comm.size)


def mpi_arg(comm, msg):
    return '%s:%s' % (msg, comm.size)


def plain_kw(msg, n=1):
    return '%s:%s' % (msg, n)


class FakeComm(object):
    size = 4
    rank = 0


# ------------------------------------------------------------------------------
class C19(Prop):
    id = 'C19'
    module = 'c19'
    title = 'Descriptions and payloads survive normalisation and transport'
    props_files = ['Props/C19.v']
    extra_targets = ['Descr/Oracle.vo', 'Gen/Descr.vo', 'Gen/PDescr.vo']
    model_targets = ['Descr/Oracle.vo', 'Gen/Descr.vo', 'Gen/PDescr.vo']
    translators = ['descr']
    header = 'From RP Require Import Descr.Types Descr.Model Descr.Oracle Gen.Descr Gen.PDescr.'
    clauses = ['idempotent', 'alias_preserved', 'mode_enforced', 'untouched_preserved', 'dict_roundtrip',
               'twin_same', 'slots_preserved', 'envelope_roundtrip', 'sequence_independent',
               'decode_independent_of_earlier_results', 'bulk_descriptions_keep_normal_form',
               'refusal_leaves_siblings', 'client_slots_readable', 'client_slots_keep_placement']
    corr_name = ('Descr.Model(construct/as_dict/verify over Gen.Descr.td_table, pd_verify over pd_table; '
                 'slots_to_new/slots_to_old/slot_ctor; transport) vs TaskDescription/PilotDescription/ru.TypedDict, convert_slots_to_new/_old/Slot, PythonTask')
    rule = ('corpus; for every alias block a family of descriptions giving the deprecated name alone (several values, '
            'use_mpi given or not, two modes), each run together with its twin (deprecated names replaced by the '
            'current ones); one description per deprecated name alone and per mode with/without its required attributes; '
            'random task descriptions (all modes incl. unknown/empty, 0-8 further attributes with mostly valid, '
            'some castable and a few invalid values, deprecated and current names in any combination, unknown keys); '
            'random pilot descriptions (resource / nodes / cores / gpus / backup_nodes combinations + further attributes); '
            'random slot lists (new Slot objects, their plain dicts, old int/dict/tuple/RO/per-rank-list encodings) '
            'through pipelines of to_new/to_old/Slot()/as_dict; function envelopes over a corpus of 11 callables '
            '(function, lambda, partial, closure, callable object, builtin, non-callables) with random args/kwargs, '
            'class and decorator form. thorough adds all subsets of deprecated names and all mode x attribute subsets. '
            'non-trivial = a description with >= 2 user attributes, a slot list with >= 1 core or GPU index, '
            'a callable envelope')
    trusted = [
        'translator translators/descr.py (ast -> Gen/Descr.v: schema, defaults, mode chain, alias blocks; fail closed)',
        'correspondence harness harness/c19.py: real TaskDescription/convert_slots_*/Slot/PythonTask objects, '
        'canonicalised to tagged scalars, compared inside Coq by vm_compute with the model',
        'modelled as used and validated by the correspondence, not verified: radical.utils.TypedDict '
        '(__init__/update/as_dict/verify/_verify_kvt casts) and ru.as_list in site-packages',
        'dill / pickle / base64 are executed for real in the harness; in the model the serialiser pairs are Section '
        'variables with the hypothesis deser (ser x) = Some x (theorem C19_envelope_roundtrip is conditional on it)',
        'floats are multiples of 0.5 of small magnitude (exact IEEE arithmetic, positional repr); strings are '
        'printable ASCII; numeric strings are canonical decimals or contain a letter',
    ]
    assumptions = [
        'attribute values have the shape of their schema entry or are scalars: scalars for scalar attributes, '
        'scalars or flat lists for list attributes, flat dicts with string keys for dict attributes (a list given '
        'to a str attribute, nested containers and td.slots contents are outside the model: OutOfModel)',
        'Slot.verify / RO._verify are not modelled; slot lists are homogeneous in their encoding',
        'serialisers are inverse on the values shipped (dill.loads(dill.dumps f) behaves like f)',
    ]
    widen_cases = 1500

    # ------------------------------------------------------------------ cases
    STRS = ['a', 'x y', '/bin/true', 'OpenMP', 'CUDA', 'Yes', '1', 'master.0001', 'it"s', "o'k", 'task.shell']
    INTS = [1, 2, 3, 8, 64, -1, 0, 2 ** 40]
    FLTS = [0.5, 1.0, 2.5, 0.0, 4.0]

    def _value(self, rng, f, rest, q):
        """a value for a field of schema type (f, rest); q in [0,1): how odd"""
        def atom_for(t, q):
            if t == 'TStr':
                if q < 0.80: return rng.choice(self.STRS)
                if q < 0.86: return ''
                return rng.choice([5, True, 1.5, -0.5, 0, None, -12, 100.0])
            if t == 'TInt':
                if q < 0.80: return rng.choice(self.INTS)
                if q < 0.94: return rng.choice(['3', 2.5, -2.5, True, False, '-7', '007', None, 7.0, '0'])
                return rng.choice(['abc', '', '1.5', 'x1'])
            if t == 'TFloat':
                if q < 0.80: return rng.choice(self.FLTS)
                if q < 0.94: return rng.choice([1, True, '1.5', '2', '-0.5', None, 0, '3.0', -3])
                return rng.choice(['x1', 'abc', ''])
            if t == 'TBool':
                if q < 0.80: return rng.choice([True, False])
                if q < 0.94: return rng.choice(['yes', 'No', 'TRUE', '1', '0', 1, 0, None, 'false'])
                return rng.choice([2, 'maybe', 1.0, ''])
            return rng.choice(self.STRS + self.INTS + [None, True, 1.5])
        if f == 'FAtom':
            return atom_for(rest, q)
        if f == 'FList':
            t = 'TStr' if 'TStr' in rest else None
            r = rng.random()
            if r < 0.08: return None
            if r < 0.16: return atom_for(t, 0.1)
            return [atom_for(t, q if rng.random() < 0.3 else 0.1) for _ in range(rng.randint(0, 3))]
        if f == 'FDict':
            r = rng.random()
            if r < 0.08: return None
            if q > 0.96: return rng.choice(['notadict', ['a'], 3])
            tv = 'TStr' if rest.endswith('(Some TStr)') else None
            return {k: atom_for(tv, q if rng.random() < 0.3 else 0.1)
                    for k in rng.sample(['A', 'B', 'PATH', 'n', 'colocate'], rng.randint(0, 3))}
        # FTyped ([Slot]): only the empty values are inside the model
        return rng.choice([None, []])

    def _td_case(self, rng):
        T = table()
        schema, rules, aliases = T['schema'], T['rules'], T['aliases']
        modes = sorted({m for ms, _ in rules for m in ms})
        d = {}
        r = rng.random()
        if r < 0.70:
            mode = rng.choice(modes)
        elif r < 0.80:
            mode = rng.choice(['raptor.master', 'raptor.worker', 'bogus.mode'])
        elif r < 0.88:
            mode = rng.choice(['', None])
        else:
            mode = 'absent'
        if mode != 'absent':
            d['mode'] = mode
        eff = mode if mode not in ('', None, 'absent') else 'task.executable'
        for ms, cs in rules:
            if eff in ms:
                for fld, req in cs:
                    if req and rng.random() < 0.85:
                        d[fld] = rng.choice([s for s in self.STRS])
                    elif not req and rng.random() < 0.15:
                        d[fld] = rng.choice(self.STRS)
                break
        keys = [k for k in schema if k != 'mode']
        for k in rng.sample(keys, rng.randint(0, 8)):
            f, rest = schema[k]
            d[k] = self._value(rng, f, rest, rng.random())
        for src, dst, conv, rf in aliases:
            if rng.random() < 0.25:
                f, rest = schema[src]
                d[src] = self._value(rng, f, rest, rng.random() * 0.9)
                if rng.random() < 0.3:
                    f, rest = schema[dst]
                    d[dst] = self._value(rng, f, rest, rng.random() * 0.8)
        if rng.random() < 0.03:
            d['foo'] = rng.choice([1, 'x', None])
        if rng.random() < 0.05:
            d['ranks'] = None
        if rng.random() < 0.15:
            d['use_mpi'] = rng.choice([True, False, None, 'yes'])
        items = list(d.items())
        rng.shuffle(items)
        return {'kind': 'td', 'd': dict(items)}

    def _pd_case(self, rng):
        schema = table()['pd_schema']
        d = {}
        r = rng.random()
        if r < 0.85:
            d['resource'] = rng.choice(['local.localhost', 'ornl.summit', 'a'])
        elif r < 0.92:
            d['resource'] = rng.choice(['', None, 0])
        r = rng.random()
        if r < 0.40:
            d['cores'] = rng.choice([1, 8, 64, '16', 2.0, 0])
        elif r < 0.75:
            d['nodes'] = rng.choice([1, 2, '4', 0])
        elif r < 0.90:
            d['nodes'] = rng.choice([1, 2])
            d[rng.choice(['cores', 'gpus'])] = rng.choice([1, 4, 0])
        if rng.random() < 0.2:
            d['backup_nodes'] = rng.choice([1, 2, 0])
        if rng.random() < 0.2:
            d['gpus'] = rng.choice([0, 1, 6])
        for k in rng.sample(sorted(schema), rng.randint(0, 5)):
            if k in d:
                continue
            f, rest = schema[k]
            d[k] = self._value(rng, f, rest, rng.random())
        if rng.random() < 0.03:
            d['foo'] = 1
        items = list(d.items())
        rng.shuffle(items)
        return {'kind': 'pd', 'd': dict(items)}

    @staticmethod
    def twin_input(d):
        """The twin of a task description: every deprecated attribute is taken out and, if it
        was set, its replacement gets the (converted) value.  None if the description uses no
        deprecated name, or gives one a value that is not of its schema type (then the
        conversion is the business of the cast, not of the alias)."""
        T = table()
        exact = {'TInt': int, 'TStr': str, 'TFloat': float, 'TBool': bool}
        tw = dict(d)
        used = False
        for src, dst, conv, rf in T['aliases']:
            if src not in d:
                continue
            used = True
            v = tw.pop(src)
            if v is None:
                continue
            if type(v) is not exact.get(T['schema'][src][1]):
                return None
            if v:
                tw[dst] = float(v) if conv == 'CFloat' else v
        return tw if used else None

    KINDS_OLD = ['ints', 'dicts', 'pairs', 'ros', 'lists']

    def _res(self, rng, kind, n):
        idx = rng.sample(range(0, 16), n)
        occ = lambda: rng.choice([4, 4, 4, 2, 1])
        if kind == 'ints':
            return ['ints', idx]
        if kind == 'lists':
            if rng.random() < 0.5:
                return ['lists', [[i] for i in idx]]
            return ['lists', [rng.sample(range(0, 16), rng.randint(1, 3)) for _ in range(max(1, n))]] if n else ['lists', []]
        return [kind, [[i, occ()] for i in idx]]

    def _slots_case(self, rng):
        shape = rng.choice(['new_obj', 'new_obj', 'new_dict', 'old'])
        if shape == 'old':
            kind = rng.choice(self.KINDS_OLD)
        ss = []
        for n in range(rng.randint(1, 3)):
            if shape == 'new_obj':
                typed, version, ck = True, 1, 'ros'
            elif shape == 'new_dict':
                typed, version, ck = False, 1, 'dicts'
            else:
                typed, version, ck = False, rng.choice([None, None, 0]), kind
            ss.append({'typed': typed, 'version': version,
                       'cores': self._res(rng, ck, rng.randint(0, 4)),
                       'gpus': self._res(rng, ck, rng.randint(0, 2)),
                       'lfs': rng.choice([0, 0, 1024]), 'mem': rng.choice([0, 0, 512]),
                       'nidx': rng.randint(0, 5), 'nname': 'node%02d' % rng.randint(0, 5)})
        if shape == 'old':
            ops = rng.choice([['new'], ['new', 'old'], ['new', 'old', 'new'], ['old'], ['ctor'], ['new', 'asdict', 'ctor']])
        else:
            ops = rng.choice([['old'], ['old', 'new'], ['new'], ['new', 'old'], ['asdict', 'ctor'], ['asdict'],
                              ['asdict', 'new', 'old'], ['old', 'old'], ['new', 'new']])
            if shape == 'new_dict':
                ops = rng.choice([ops, ['ctor'], ['ctor', 'old'], ['ctor', 'asdict']])
        return {'kind': 'slots', 'ops': ops, 'slots': ss}

    def _env_case(self, rng):
        f = rng.choice(list(FUNCS))
        pool = [0, 1, 2, -3, 'a', 'x y', None, True, 2.5, 0.5]
        args = [rng.choice(pool) for _ in range(rng.randint(0, 3))]
        r = rng.random()
        if r < 0.3:
            kw = None
        else:
            kw = {k: rng.choice(pool) for k in rng.sample(['p', 'q', 'comm', 'n'], rng.randint(0, 3))}
        return {'kind': 'env', 'func': f, 'via': rng.choice(['class', 'class', 'decor']), 'args': args, 'kwargs': kw}

    # list / dict valued attributes a user mutates in place, with a sample element
    SEQ_FIELDS = {
        'td': [('arguments', None), ('pre_exec', None), ('post_exec', None), ('pre_launch', None),
               ('input_staging', None), ('output_staging', None), ('services', None), ('args', None),
               ('environment', 'K'), ('tags', 'colocate'), ('metadata', 'm'), ('kwargs', 'k')],
        'pd': [('app_comm', None), ('input_staging', None), ('output_staging', None), ('prepare_env', 'env')],
    }

    def _seq_input(self, rng, cls, with_keys):
        if cls == 'td':
            d = {'executable': rng.choice(['/bin/true', 'a', 'x y'])}
            if rng.random() < 0.5:
                src, dst, conv, rf = rng.choice(table()['aliases'])
                t = table()['schema'][src][1]
                d[src] = {'TInt': rng.choice([2, 4]), 'TStr': 'W'}.get(t, 'W')
            if rng.random() < 0.3:
                d['ranks'] = rng.choice([1, 2, 8])
        else:
            d = {'resource': 'local.localhost'}
            d[rng.choice(['cores', 'nodes'])] = rng.choice([1, 4])
        for k, dk in with_keys:
            d[k] = {dk: 'v0'} if dk else ['e0']
        return d

    def _dseq_case(self, rng, cls=None, template=None):
        """2-3 descriptions of one class built, mutated, verified and transported one after the other in
        ONE process.  Slot 0 is the one that gets mutated; slot 1 is another description; slot 2 is a fresh
        one built from the same input as slot 0."""
        cls = cls or rng.choice(['td', 'td', 'pd'])
        fields = self.SEQ_FIELDS[cls]
        template = template or rng.choice(['default_before', 'after_verify', 'own_before', 'foreign', 'mixed'])
        k, dk = rng.choice(fields)
        e = rng.choice(['LEAK', 'x y', 'z'])
        given = template in ('own_before',) or (template in ('after_verify', 'foreign', 'mixed') and rng.random() < 0.5)
        x0 = self._seq_input(rng, cls, [(k, dk)] if given else [])
        x1 = self._seq_input(rng, cls, [(k, dk)] if rng.random() < 0.3 else [])
        app = ['append', 0, k, dk or '', e]
        ops = [['construct', 0, x0]]
        if template == 'default_before':        # the attribute still holds the class default object
            ops += [app, ['verify', 0]]
        elif template == 'own_before':          # the attribute holds the list given to the constructor
            ops += [app, ['verify', 0]]
        elif template == 'after_verify':
            ops += [['verify', 0], app]
        elif template == 'foreign':
            ops += [['verify', 0], ['mut_input', 0, k, dk or '', e], ['mut_asdict', 0, k, dk or '', e]]
        else:
            k2, dk2 = rng.choice(fields)
            ops += [['verify', 0], app, ['mut_asdict', 0, k2, dk2 or '', 'q'], ['append', 0, k2, dk2 or '', 'r'],
                    ['mut_input', 0, k, dk or '', e]]
        ops += [['construct', 1, x1], ['verify', 1]]
        if rng.random() < 0.5:
            ops += [['mut_asdict', 1, k, dk or '', e]]
        ops += [['construct', 2, copy.deepcopy(x0)], ['verify', 2]]
        if rng.random() < 0.3:
            ops += [['append', 1, k, dk or '', 'late']]
        return {'kind': 'dseq', 'cls': cls, 'template': template, 'ops': ops}

    # descriptions verify() refuses, one per reason it knows
    REFUSED = [{'mode': 'task.function'},                                   # required attribute missing
               {'mode': 'task.function', 'function': 'f', 'named_env': 'e'},   # forbidden attribute present
               {'mode': 'task.shell'}, {'mode': 'task.eval'}, {},          # command / code / executable missing
               {'executable': 'x', 'ranks': 'abc'},                        # a value that cannot be cast
               {'executable': 'x', 'foo': 1},                              # a key outside the schema
               {'executable': 'x', 'ranks': None},                         # use_mpi cannot be derived
               {'executable': 'x', 'environment': 'notadict'}]

    def _bulk_valid(self, rng, uid=None):
        d = {'executable': rng.choice(['/bin/true', 'a', 'x y'])}
        if rng.random() < 0.4:
            src, dst, conv, rf = rng.choice(table()['aliases'])
            d[src] = {'TInt': rng.choice([2, 4]), 'TStr': 'W'}.get(table()['schema'][src][1], 'W')
        if rng.random() < 0.3:
            d['arguments'] = ['a', 'b']
        if rng.random() < 0.2:
            d['name'] = 5                                                   # needs a cast
        if uid is not None:
            d['uid'] = uid
        return d

    def _bulk_case(self, rng, shape=None):
        """Description objects (sources) and the submit_tasks calls made with them (lists of object
        numbers; a number twice = the same object listed twice)."""
        shape = shape or rng.choice(['valid', 'refused', 'refused', 'dup_uid', 'same_object', 'resubmit', 'mixed'])
        n = rng.randint(1, 4)
        srcs = []
        for i in range(n):
            uid = 'app.%d' % i if rng.random() < 0.5 else None
            srcs.append(self._bulk_valid(rng, uid))
        calls = [list(range(n))]
        if shape in ('refused', 'resubmit', 'mixed'):
            j = rng.randint(0, n)
            bad = copy.deepcopy(rng.choice(self.REFUSED))
            if rng.random() < 0.4:
                bad['uid'] = 'app.bad'
            srcs.insert(j, bad)
            n += 1
            calls = [list(range(n))]
            if j > 0 and rng.random() < 0.7 and 'uid' not in srcs[j - 1]:
                srcs[j - 1]['uid'] = 'app.pre'
            if shape in ('resubmit', 'mixed'):
                calls.append([i for i in range(n) if i != j])           # the corrected bulk
        if shape in ('dup_uid', 'mixed') and n >= 2:
            a, b = rng.sample(range(n), 2)
            if 'mode' not in srcs[a] or srcs[a].get('executable'):
                srcs[a]['uid'] = srcs[b]['uid'] = 'app.same'
        if shape in ('same_object', 'mixed'):
            k = rng.randrange(n)
            calls[0].insert(rng.randint(0, len(calls[0])), k)
        if shape == 'valid' and rng.random() < 0.5:
            calls.append([rng.randrange(n)])                               # submitted a second time
        if rng.random() < 0.2:
            calls = [c[:1] if i == 0 and rng.random() < 0.3 else c for i, c in enumerate(calls)]
        return {'kind': 'bulk', 'shape': shape, 'srcs': srcs, 'calls': calls}

    # who writes task['slots']
    WRITERS = ['node_find_slot',     # agent schedulers (Continuous & co): Slot objects from the REAL Node.find_slot
               'app_new',            # td.slots given by the application in the new format: REAL td.verify().as_dict()
               'app_old',            # ... in the old format (int indices): REAL td.verify().as_dict()
               'raptor_default',     # REAL raptor DefaultWorker._alloc: [{'cores': [..], 'gpus': [..]}] and nothing else
               'subagent_old',       # agent_0 sub-agent pseudo task (shape mirrored): complete old format, RO objects
               'old_complete',       # complete old format with int indices (shape mirrored)
               'hombre',             # hombre scheduler chunk (shape mirrored): a dict {'ranks': [...], ...}
               'none', 'empty']

    def _client_case(self, rng, writer=None, transported=None, n=None):
        writer = writer or rng.choice(self.WRITERS)
        n = n or rng.randint(1, 3)
        specs = []
        for _ in range(n):
            specs.append({'nidx': rng.randint(0, 5), 'cores': rng.randint(0 if writer != 'raptor_default' else 1, 3),
                          'gpus': rng.randint(0, 2), 'lfs': rng.choice([0, 0, 10]), 'mem': rng.choice([0, 0, 5])})
        return {'kind': 'client', 'writer': writer, 'specs': specs,
                'transported': rng.random() < 0.6 if transported is None else transported,
                'second_update': rng.choice([None, None, 'none', 'again'])}

    DEC_ARGS = [['a', 'b'], 1, {'k': 1}]
    DEC_KW = {'extra': {'k': 1}, 'comm': None, 'items': ['x']}

    def _decseq_systematic(self):
        base = {'kind': 'decseq', 'state': 3, 'args': self.DEC_ARGS, 'kwargs': self.DEC_KW}
        muts = [['arg_nested', 0, 'done'], ['args_append', 'tail'], ['kw_set', 'comm', 7], ['kw_set', 'new', 'v'],
                ['kw_del', 'comm'], ['kw_nested', 'extra', 'seen', 1], ['kw_nested', 'items', '', 'y'],
                ['func_state', 9], ['arg_nested', 2, 'z']]
        for via in ('class', 'decor'):
            for m in muts:
                yield dict(base, via=via, ops=[['decode'], ['mut', 0] + m, ['decode']])
            yield dict(base, via=via, ops=[['decode'], ['mut', 0] + muts[0], ['decode'], ['mut', 1] + muts[4],
                                           ['mut', 0] + muts[5], ['decode']])

    def _decseq_case(self, rng):
        atoms = [0, 1, 'a', 'x y', None, True, 2.5]
        args = []
        for _ in range(rng.randint(1, 3)):
            r = rng.random()
            args.append([rng.choice(atoms) for _ in range(rng.randint(0, 2))] if r < 0.5 else
                        {k: rng.choice(atoms) for k in rng.sample(['k', 'm'], rng.randint(0, 2))} if r < 0.7 else
                        rng.choice(atoms))
        kw = {}
        for k in rng.sample(['extra', 'comm', 'items', 'n'], rng.randint(1, 3)):
            kw[k] = {'k': 1} if k == 'extra' else None if k == 'comm' else ['x'] if k == 'items' else rng.choice(atoms)
        ops, ndec = [['decode']], 1
        for _ in range(rng.randint(1, 4)):
            i = rng.randrange(ndec)
            kind = rng.choice(['arg_nested', 'args_append', 'kw_set', 'kw_del', 'kw_nested', 'func_state'])
            if kind == 'arg_nested':
                js = [j for j, a in enumerate(args) if isinstance(a, (list, dict))]
                if not js:
                    continue
                m = ['arg_nested', rng.choice(js), rng.choice(['done', 5])]
            elif kind == 'args_append':
                m = ['args_append', rng.choice(atoms)]
            elif kind == 'kw_set':
                m = ['kw_set', rng.choice(list(kw) + ['new']), rng.choice([7, 'v', None])]
            elif kind == 'kw_del':
                m = ['kw_del', rng.choice(list(kw))]
            elif kind == 'kw_nested':
                ks = [k for k, v in kw.items() if isinstance(v, (list, dict))]
                if not ks:
                    continue
                m = ['kw_nested', rng.choice(ks), rng.choice(['seen', 'k']), rng.choice([1, 'y'])]
            else:
                m = ['func_state', rng.randint(4, 9)]
            ops.append(['mut', i] + m)
            if rng.random() < 0.7:
                ops.append(['decode'])
                ndec += 1
        if ops[-1][0] != 'decode':
            ops.append(['decode'])
        return {'kind': 'decseq', 'state': rng.randint(0, 3), 'via': rng.choice(['class', 'decor']),
                'args': args, 'kwargs': kw, 'ops': ops}

    def _envseq_case(self, rng, name=None, via=None, nsteps=None):
        pool = [0, 1, 2, -3, 'a', 'x y', None, True, 2.5]
        n = nsteps or rng.randint(1, 3)
        states = rng.sample(range(1, 10), n)
        steps = []
        for st in states:
            kw = None if rng.random() < 0.3 else \
                {k: rng.choice(pool) for k in rng.sample(['p', 'q', 'comm', 'n'], rng.randint(0, 2))}
            steps.append({'state': st, 'args': [rng.choice(pool) for _ in range(rng.randint(0, 2))], 'kwargs': kw})
        return {'kind': 'envseq', 'func': name or rng.choice(sorted(STATEFUL)),
                'via': via or rng.choice(['decor', 'decor', 'class']), 's0': 0, 'steps': steps}

    def cases(self, rng, tier):
        T = table()
        schema, rules, aliases = T['schema'], T['rules'], T['aliases']
        sample = {'TStr': 'W', 'TInt': 3, 'TFloat': 1.5, 'TBool': True}
        # every deprecated name alone, with and without its replacement
        for src, dst, conv, rf in aliases:
            v = sample.get(schema[src][1], 'W')
            yield {'kind': 'td', 'd': {'executable': '/bin/true', src: v}}
            yield {'kind': 'td', 'd': {src: v, 'executable': '/bin/true', dst: sample.get(schema[dst][1], 'Z')}}
        # twins, systematically: every deprecated name alone with several values, with the
        # derived flag given or not, and in other modes
        more = {'TStr': ['OpenMP', 'master.0001'], 'TInt': [1, 2, 4, 0], 'TFloat': [0.5, 2.0], 'TBool': [True, False]}
        for src, dst, conv, rf in aliases:
            for v in more.get(schema[src][1], []):
                yield {'kind': 'td', 'd': {'executable': '/bin/true', src: v}}
                yield {'kind': 'td', 'd': {'executable': '/bin/true', src: v, 'use_mpi': False}}
                yield {'kind': 'td', 'd': {'mode': 'task.shell', 'command': 'date', src: v, 'ranks': 2}}
        # every mode, required attributes absent / present / forbidden present
        for ms, cs in rules:
            for m in ms:
                yield {'kind': 'td', 'd': {'mode': m}}
                yield {'kind': 'td', 'd': dict({'mode': m}, **{f: 'v' for f, r in cs if r})}
                yield {'kind': 'td', 'd': dict({'mode': m}, **{f: 'v' for f, r in cs})}
        yield {'kind': 'td', 'd': {}}
        yield {'kind': 'td', 'd': {'executable': 'x', 'ranks': None}}
        for f in FUNCS:
            yield {'kind': 'env', 'func': f, 'via': 'class', 'args': [1, 'a'], 'kwargs': {'p': 2}}
            yield {'kind': 'env', 'func': f, 'via': 'decor', 'args': [1, 'a'], 'kwargs': {'p': 2}}
        # callables of every kind (shape x scope x class attribute) through both construction paths
        for shape, scope, attr in all_kinds():
            args = [5, 2] if shape == 'builtin' else [1, 'a']
            kw = None if shape == 'builtin' else {'p': 2}
            for via in ('class', 'decor'):
                yield {'kind': 'envk', 'shape': shape, 'scope': scope, 'attr': attr, 'via': via,
                       'args': args, 'kwargs': kw}
        kinds = list(all_kinds())
        pool = [0, 1, 2, -3, 'a', 'x y', None, True, 2.5]
        for _ in range(30 if tier == 'quick' else 1500):
            shape, scope, attr = rng.choice(kinds)
            if shape == 'builtin':
                continue
            yield {'kind': 'envk', 'shape': shape, 'scope': scope, 'attr': attr, 'via': rng.choice(['class', 'decor']),
                   'args': [rng.choice(pool) for _ in range(rng.randint(0, 3))],
                   'kwargs': None if rng.random() < 0.3 else
                   {k: rng.choice(pool) for k in rng.sample(['p', 'q', 'n'], rng.randint(0, 2))}}
        # the client reads what every writer of task['slots'] leaves
        for writer in self.WRITERS:
            for transported in (True, False):
                for n in (1, 2):
                    yield self._client_case(rng, writer, transported, n)
        for _ in range(40 if tier == 'quick' else 1200):
            yield self._client_case(rng)
        # TaskManager.submit_tasks on bulks: a description with an application-chosen uid followed by
        # each kind of refused description; duplicates; the same object twice; then random ones
        for bad in self.REFUSED:
            yield {'kind': 'bulk', 'shape': 'refused', 'calls': [[0, 1, 2]],
                   'srcs': [{'executable': '/bin/true', 'uid': 'app.0'}, copy.deepcopy(bad), {'executable': 'a'}]}
        yield {'kind': 'bulk', 'shape': 'refused', 'calls': [[0, 1, 2], [0, 2]],
               'srcs': [{'executable': 'x'}, {'mode': 'task.function'}, {'executable': 'a', 'uid': 'app.2'}]}
        yield {'kind': 'bulk', 'shape': 'dup_uid', 'calls': [[0, 1]],
               'srcs': [{'executable': 'x', 'uid': 'app.same'}, {'executable': 'y', 'uid': 'app.same'}]}
        yield {'kind': 'bulk', 'shape': 'same_object', 'calls': [[0, 1, 0]],
               'srcs': [{'executable': 'x'}, {'executable': 'y', 'cpu_processes': 4}]}
        yield {'kind': 'bulk', 'shape': 'valid', 'calls': [[0]], 'srcs': [{'executable': 'x', 'uid': 'app.0'}]}
        for _ in range(60 if tier == 'quick' else 1200):
            yield self._bulk_case(rng)
        # one string decoded k >= 2 times, the earlier results changed in place in between
        for spec in self._decseq_systematic():
            yield spec
        for _ in range(40 if tier == 'quick' else 1000):
            yield self._decseq_case(rng)
        # the real raptor worker dispatching the same function string several times
        for how in ('kw', 'arg', 'plain'):
            for via in ('class', 'decor'):
                yield {'kind': 'dispatch', 'how': how, 'via': via, 'runs': 2}
        yield {'kind': 'dispatch', 'how': 'kw', 'via': 'decor', 'runs': 3}
        # Slot(): fresh ones after earlier ones had their default lists mutated in place
        for n in (2, 3):
            yield {'kind': 'slotdefault', 'n': n}
        # descriptions in sequence: every template for both classes, then random ones
        for cls in ('td', 'pd'):
            for tpl in ('default_before', 'after_verify', 'own_before', 'foreign', 'mixed'):
                yield self._dseq_case(rng, cls, tpl)
        for _ in range(50 if tier == 'quick' else 2000):
            yield self._dseq_case(rng)
        # every stateful callable through both construction paths: one task after a state change,
        # and several tasks in sequence with the state changing in between
        for name in sorted(STATEFUL):
            for via in ('decor', 'class'):
                yield {'kind': 'envseq', 'func': name, 'via': via, 's0': 0,
                       'steps': [{'state': 5, 'args': [4], 'kwargs': None}]}
                yield self._envseq_case(rng, name, via, 3)
        for _ in range(40 if tier == 'quick' else 1500):
            yield self._envseq_case(rng)
        n_td, n_sl, n_env, n_pd = (400, 150, 100, 100) if tier == 'quick' else (7500, 3500, 2000, 2000)
        for _ in range(n_td):
            yield self._td_case(rng)
        yield {'kind': 'pd', 'd': {}}
        yield {'kind': 'pd', 'd': {'resource': 'local.localhost', 'cores': 4}}
        yield {'kind': 'pd', 'd': {'resource': 'local.localhost', 'nodes': 2, 'backup_nodes': 1}}
        yield {'kind': 'pd', 'd': {'resource': 'local.localhost', 'nodes': 2, 'gpus': 1}}
        yield {'kind': 'pd', 'd': {'resource': 'local.localhost', 'backup_nodes': 1, 'cores': 4}}
        for _ in range(n_pd):
            yield self._pd_case(rng)
        for _ in range(n_sl):
            yield self._slots_case(rng)
        for _ in range(n_env):
            yield self._env_case(rng)
        if tier == 'thorough':
            srcs = [a[0] for a in aliases]
            for k in range(len(srcs) + 1):
                for sub in itertools.combinations(srcs, k):
                    d = {'executable': '/bin/true'}
                    for s in sub:
                        d[s] = sample.get(schema[s][1], 'W')
                    yield {'kind': 'td', 'd': d}
            flds = sorted({f for _, cs in rules for f, _ in cs})
            modes = sorted({m for ms, _ in rules for m in ms}) + ['raptor.master', '', None]
            for m in modes:
                for k in range(len(flds) + 1):
                    for sub in itertools.combinations(flds, k):
                        yield {'kind': 'td', 'd': dict({'mode': m}, **{f: 'v' for f in sub})}

    # ------------------------------------------------------------------ impl
    def impl_setup(self):
        self.rp = rp_import()
        # pristine class-level defaults: a sequence case that pollutes them must not spill into the
        # cases that happen to run after it in the same child process
        self._pristine = {c: copy.deepcopy(dict(c._defaults))
                          for c in (self.rp.TaskDescription, self.rp.PilotDescription)}

    def _reset_defaults(self):
        for c, d in self._pristine.items():
            c._defaults.clear()
            c._defaults.update(copy.deepcopy(d))

    def _run_dseq(self, case):
        """All operations in this one process, in order; at the end the _data of every description."""
        C = self.rp.TaskDescription if case['cls'] == 'td' else self.rp.PilotDescription
        self._reset_defaults()
        objs, inputs, errs = {}, {}, []

        def mutate(container, k, dk, e):
            v = container[k]
            if isinstance(v, list):
                v.append(e)
            elif isinstance(v, dict):
                v[dk] = e
            else:
                raise RuntimeError('attribute %s holds %r' % (k, v))
        try:
            for op in case['ops']:
                if op[0] == 'construct':
                    inputs[op[1]] = copy.deepcopy(op[2])
                    objs[op[1]] = C(from_dict=inputs[op[1]])
                elif op[0] == 'verify':
                    try:
                        objs[op[1]].verify()
                    except Exception as e:
                        errs.append([op[1], exc_name(e)])
                elif op[0] == 'append':
                    mutate(objs[op[1]], op[2], op[3], op[4])
                elif op[0] == 'mut_input':
                    if op[2] in inputs[op[1]]:
                        mutate(inputs[op[1]], op[2], op[3], op[4])
                    else:
                        inputs[op[1]][op[2]] = [op[4]]
                elif op[0] == 'mut_asdict':
                    mutate(objs[op[1]].as_dict(), op[2], op[3], op[4])
                else:
                    raise RuntimeError(op[0])
            return {'final': [[i, tag_descr(o._data)] for i, o in sorted(objs.items())], 'errs': errs}
        finally:
            self._reset_defaults()

    def _run_td(self, case):
        TD = self.rp.TaskDescription if case['kind'] == 'td' else self.rp.PilotDescription
        td = TD(from_dict=copy.deepcopy(case['d']))
        obs = {'c': tag_descr(td._data)}
        obs['rt'] = tag_descr(TD(from_dict=td.as_dict())._data)
        tw = self.twin_input(case['d']) if case['kind'] == 'td' else None
        if tw is not None:
            twd = TD(from_dict=copy.deepcopy(tw))
            try:
                twd.verify()
                obs['twin'] = {'d': tw, 'v': tag_descr(twd._data)}
            except Exception as e:
                obs['twin'] = {'d': tw, 'v': {'exc': exc_name(e)}}
        try:
            ret = td.verify()
            assert ret is td
            obs['v1'] = tag_descr(td._data)
        except Exception as e:
            obs['v1'] = {'exc': exc_name(e)}
            return obs
        obs['rtv'] = tag_descr(TD(from_dict=td.as_dict())._data)
        try:
            td.verify()
            obs['v2'] = tag_descr(td._data)
        except Exception as e:
            obs['v2'] = {'exc': exc_name(e)}
        return obs

    def _mk_res(self, spec):
        from radical.pilot.resource_config import RO
        kind, data = spec
        if kind == 'ints':
            return list(data)
        if kind == 'lists':
            return [list(x) for x in data]
        occ = lambda q: None if q is None else q / 4.0
        if kind == 'dicts':
            return [{'index': i, 'occupation': occ(q)} for i, q in data]
        if kind == 'pairs':
            return [(i, occ(q)) for i, q in data]
        if kind == 'ros':
            return [RO(index=i, occupation=occ(q)) for i, q in data]
        raise ValueError(kind)

    def _mk_slot(self, s):
        from radical.pilot.resource_config import Slot
        d = {'cores': self._mk_res(s['cores']), 'gpus': self._mk_res(s['gpus']), 'lfs': s['lfs'], 'mem': s['mem'],
             'node_index': s['nidx'], 'node_name': s['nname']}
        if s['typed']:
            assert s['version'] == 1
            return Slot(**d)
        if s['version'] is not None:
            d['version'] = s['version']
        return d

    def _tag_res(self, r):
        from radical.pilot.resource_config import RO
        if not r:
            if r != []:
                raise ValueError('resource list is %r' % (r,))
            return ['ints', []]
        def q(o):
            if o is None:
                return None
            x = o * 4
            if x != int(x):
                raise ValueError('occupation %r' % (o,))
            return int(x)
        e = r[0]
        if isinstance(e, RO):
            if not all(isinstance(x, RO) for x in r): raise ValueError('mixed resource list')
            return ['ros', [[x['index'], q(x['occupation'])] for x in r]]
        if type(e) is dict:
            if not all(type(x) is dict and set(x) >= {'index', 'occupation'} for x in r): raise ValueError('mixed')
            return ['dicts', [[x['index'], q(x['occupation'])] for x in r]]
        if isinstance(e, bool):
            raise ValueError('bool index')
        if isinstance(e, int):
            if not all(type(x) is int for x in r): raise ValueError('mixed')
            return ['ints', list(r)]
        if type(e) is tuple:
            if not all(type(x) is tuple and len(x) == 2 for x in r): raise ValueError('mixed')
            return ['pairs', [[x[0], q(x[1])] for x in r]]
        if type(e) is list:
            if not all(type(x) is list and all(type(y) is int for y in x) for x in r): raise ValueError('mixed')
            return ['lists', [list(x) for x in r]]
        raise ValueError('resource element %r' % (e,))

    def _tag_slot(self, s):
        from radical.pilot.resource_config import Slot
        typed = isinstance(s, Slot)
        if not typed and type(s) is not dict:
            raise ValueError('slot is a %s' % type(s).__name__)
        keys = set(s.keys())
        want = {'cores', 'gpus', 'lfs', 'mem', 'node_index', 'node_name'}
        if not (want <= keys <= want | {'version'}):
            raise ValueError('slot keys %s' % sorted(keys))
        for k in ('lfs', 'mem', 'node_index'):
            if type(s[k]) is not int:
                raise ValueError('%s is %r' % (k, s[k]))
        return {'typed': typed, 'version': s.get('version'), 'cores': self._tag_res(s['cores']),
                'gpus': self._tag_res(s['gpus']), 'lfs': s['lfs'], 'mem': s['mem'], 'nidx': s['node_index'],
                'nname': s['node_name']}

    def _slot_op(self, op, cur):
        from radical.pilot.resource_config import Slot
        import radical.pilot.utils as rpu
        import radical.utils as ru
        if op == 'new':
            return rpu.convert_slots_to_new(cur)
        if op == 'old':
            return rpu.convert_slots_to_old(cur)
        if op == 'ctor':
            # the plain dict itself is handed to the constructor (no defensive copy)
            return [Slot(from_dict=s if type(s) is dict else s.as_dict()) for s in cur]
        if op == 'asdict':
            return [ru.as_dict(s) for s in cur]
        raise RuntimeError(op)

    @staticmethod
    def _passthrough(op, tagged):
        """the conversions hand a slot through untouched when there is nothing to convert"""
        v = tagged['version']
        return (op == 'new' and v is not None and v >= 1) or (op == 'old' and not v)

    def _run_slots(self, case):
        inp = [self._mk_slot(s) for s in case['slots']]
        cur = inp
        stages, objs = [], []
        for op in case['ops']:
            try:
                cur = self._slot_op(op, cur)
            except Exception as e:
                stages.append({'exc': exc_name(e)})
                break
            objs.append(cur)
            stages.append([self._tag_slot(s) for s in cur])
        # state carried across calls: mutate every converted output, then look at the input again
        # and apply the first conversion to it a second time
        for k, out in enumerate(objs):
            src = case['slots'] if k == 0 else stages[k - 1]
            for j, o in enumerate(out):
                if self._passthrough(case['ops'][k], src[j]):
                    continue
                o['node_name'] = o['node_name'] + '!'
                for r in ('cores', 'gpus'):
                    if isinstance(o[r], list) and o[r]:
                        o[r].append(copy.copy(o[r][0]))
        obs = {'stages': stages, 'input_after': [self._tag_slot(s) for s in inp]}
        try:
            again = [self._tag_slot(s) for s in self._slot_op(case['ops'][0], inp)]
        except Exception as e:
            again = {'exc': exc_name(e)}
        obs['rerun_same'] = (again == stages[0])
        return obs

    def _run_env(self, case):
        rp = self.rp
        f = FUNCS[case['func']]
        args, kw = tuple(case['args']), case['kwargs']
        try:
            if case['via'] == 'class':
                w = rp.PythonTask(f, args, copy.deepcopy(kw)) if kw is not None else rp.PythonTask(f, args)
            else:
                w = rp.pythontask(f)(*args, **(kw or {}))
            assert isinstance(w, str)
            g, dargs, dkw = rp.PythonTask.get_func_attr(w)
        except Exception as e:
            return {'exc': exc_name(e)}

        def call(fn, a, k):
            try:
                return ['ok', repr(fn(*a, **k))]
            except Exception as e:
                return ['raises', type(e).__name__]
        want = call(f, args, kw or {})
        try:
            got = ['ok', repr(g(*dargs, **dkw))]
        except Exception as e:
            got = ['raises', type(e).__name__]
        if not isinstance(dargs, list) or not (dkw is None or type(dkw) is dict):
            raise ValueError('decoded args/kwargs have types %s/%s' % (type(dargs).__name__, type(dkw).__name__))
        return {'args': [tag_atom(x) for x in dargs],
                'kwargs': None if dkw is None else [[k, tag_atom(v)] for k, v in dkw.items()],
                'same': want == got, 'want': want, 'got': got, 'callable': callable(g)}

    def _run_envseq(self, case):
        """One callable, decorated once (decorator path), then for every step: change the state
        the callable carries, take the REFERENCE result by calling the original now (encode
        time), create the task.  Only afterwards -- and after the state was changed once more --
        the tasks are decoded and the decoded triples called."""
        rp = self.rp
        f, setst = STATEFUL[case['func']]()
        setst(case['s0'])
        dec = rp.pythontask(f) if case['via'] == 'decor' else None
        made = []
        shared_args, shared_kw = [], {}        # ONE list and ONE dict object, refilled for every encoding
        for st in case['steps']:
            setst(st['state'])
            shared_args[:] = st['args']
            shared_kw.clear()
            shared_kw.update(st['kwargs'] or {})
            args, kw = tuple(st['args']), st['kwargs']
            want = f(*args, **(kw or {}))
            if want[0] != st['state']:
                raise RuntimeError('stateful callable %s does not report its state' % case['func'])
            try:
                if dec is not None:
                    w = dec(*shared_args, **shared_kw)
                else:
                    w = rp.PythonTask(f, shared_args, shared_kw) if kw is not None else rp.PythonTask(f, shared_args)
                made.append((w, want))
            except Exception as e:
                made.append((e, want))
        shared_args.append('POISON')           # ... and spoiled before anything is decoded
        shared_kw['POISON'] = 1
        setst(POISON)
        out = []
        for w, want in made:
            if isinstance(w, Exception):
                out.append({'exc': exc_name(w)})
                continue
            try:
                g, dargs, dkw = rp.PythonTask.get_func_attr(w)
            except Exception as e:
                out.append({'exc': exc_name(e)})
                continue
            try:
                got = g(*dargs, **dkw)
                state = got[0] if isinstance(got, (list, tuple)) and got and type(got[0]) is int else POISON - 1
            except Exception as e:
                got, state = 'raises %s' % type(e).__name__, POISON - 1
            out.append({'state': state, 'args': [tag_atom(x) for x in dargs],
                        'kwargs': None if dkw is None else [[k, tag_atom(v)] for k, v in dkw.items()],
                        'same': got == want, 'want': repr(want), 'got': repr(got)})
        return {'steps': out}

    def _run_envk(self, case):
        """The real serialize_obj / deserialize_obj and the real PythonTask transport on a callable
        of the given kind; beside it, measured on the same callable: can dill write it by value,
        by reference, can stdlib pickle round-trip it."""
        import dill
        import warnings
        from radical.pilot.utils.serializer import serialize_obj, deserialize_obj
        warnings.simplefilter('ignore')
        rp = self.rp
        f = build_callable(case['shape'], case['scope'], case['attr'])
        args, kw = tuple(case['args']), case['kwargs']

        def attempt(fn):
            try:
                fn()
                return True
            except Exception:
                return False
        obs = {'val_ok': attempt(lambda: dill.dumps(f)),
               'ref_ok': attempt(lambda: dill.dumps(f, byref=True)),
               'pk_ok': attempt(lambda: callable(pickle.loads(pickle.dumps(f))) or 1 / 0)}
        want = repr(f(*args, **(kw or {})))
        try:
            g = deserialize_obj(serialize_obj(f))
            obs['ser'] = {'same': bool(callable(g) and repr(g(*args, **(kw or {}))) == want)}
        except Exception as e:
            obs['ser'] = {'exc': exc_name(e), 'msg': str(e)[:120]}
        try:
            if case['via'] == 'class':
                w = rp.PythonTask(f, args, copy.deepcopy(kw)) if kw is not None else rp.PythonTask(f, args)
            else:
                w = rp.pythontask(f)(*args, **(kw or {}))
            g, dargs, dkw = rp.PythonTask.get_func_attr(w)
        except Exception as e:
            obs['tr'] = {'exc': exc_name(e), 'msg': str(e)[:120]}
            return obs
        try:
            got = repr(g(*dargs, **dkw))
        except Exception as e:
            got = 'raises %s' % type(e).__name__
        obs['tr'] = {'args': [tag_atom(x) for x in dargs],
                     'kwargs': None if dkw is None else [[k, tag_atom(v)] for k, v in dkw.items()],
                     'same': bool(callable(g) and got == want), 'want': want, 'got': got}
        return obs

    def run_impl(self, case):
        """Cases that mutate objects in place or exercise class-level state run in a forked copy of
        this (never polluted) process: what a case observes then depends on that case alone, so a
        replay reproduces in isolation and shrinking cannot feed on the leftovers of other cases."""
        if case['kind'] in ('td', 'pd'):
            return self._run_case(case)
        import json as _json
        r, w = os.pipe()
        pid = os.fork()
        if pid == 0:
            try:
                os.close(r)
                try:
                    out = {'ok': self._run_case(case)}
                except BaseException as e:      # noqa
                    out = {'err': '%s: %s' % (type(e).__name__, e)}
                data = _json.dumps(out).encode()
                while data:
                    n = os.write(w, data)
                    data = data[n:]
            finally:
                os._exit(0)
        os.close(w)
        chunks = []
        while True:
            b = os.read(r, 1 << 16)
            if not b:
                break
            chunks.append(b)
        os.close(r)
        os.waitpid(pid, 0)
        if not chunks:
            raise RuntimeError('forked case runner died')
        out = _json.loads(b''.join(chunks).decode())
        if 'err' in out:
            raise RuntimeError(out['err'])
        return out['ok']

    def _write_slots(self, case):
        """What the named writer leaves in task['slots'] -- produced by the real writer where the case
        says REAL, otherwise a literal copy of the structure the writer builds."""
        import threading
        from unittest import mock
        from radical.pilot.resource_config import Node, RO, RankRequirements
        w, specs = case['writer'], case['specs']
        if w == 'none':
            return None
        if w == 'empty':
            return []
        if w == 'hombre':
            return {'ranks': [{'name': 'node%02d' % sp['nidx'], 'index': sp['nidx'],
                               'cores': list(range(sp['cores'])), 'gpus': list(range(sp['gpus']))} for sp in specs],
                    'ncblocks': len(specs), 'ngblocks': 0}
        out = []
        for sp in specs:
            name = 'node%02d' % sp['nidx']
            if w == 'node_find_slot':
                node = Node({'index': sp['nidx'], 'name': name, 'lfs': 100, 'mem': 100,
                             'cores': [RO(index=i, occupation=0.0) for i in range(4)],
                             'gpus': [RO(index=i, occupation=0.0) for i in range(2)]})
                sl = node.find_slot(RankRequirements(n_cores=sp['cores'], n_gpus=sp['gpus'], lfs=sp['lfs'], mem=sp['mem']))
                if sl is None:
                    raise RuntimeError('Node.find_slot found nothing')
                out.append(sl)
            elif w in ('app_new', 'app_old'):
                if w == 'app_new':
                    c = [{'index': i, 'occupation': 1.0} for i in range(sp['cores'])]
                    g = [{'index': i, 'occupation': 0.5} for i in range(sp['gpus'])]
                    given = {'cores': c, 'gpus': g, 'lfs': sp['lfs'], 'mem': sp['mem'], 'node_index': sp['nidx'],
                             'node_name': name, 'version': 1}
                else:
                    given = {'cores': list(range(sp['cores'])), 'gpus': list(range(sp['gpus'])), 'lfs': sp['lfs'],
                             'mem': sp['mem'], 'node_index': sp['nidx'], 'node_name': name}
                td = self.rp.TaskDescription({'executable': 'x', 'slots': [given]})
                td.verify()
                out.extend(td.as_dict()['slots'])
            elif w == 'raptor_default':
                from radical.pilot.raptor.worker_default import DefaultWorker
                with mock.patch.object(DefaultWorker, '__init__', return_value=None):
                    wk = DefaultWorker()
                wk._rlock, wk._prof = threading.Lock(), mock.Mock()
                wk._n_cores, wk._n_gpus = 4, 2
                wk._resources = {'cores': [0] * 4, 'gpus': [0] * 2}
                t = {'uid': 'task.x', 'cores': sp['cores'], 'gpus': sp['gpus']}
                if not wk._alloc(t):
                    raise RuntimeError('DefaultWorker._alloc failed')
                out.extend(t['slots'])
            elif w == 'subagent_old':
                out.append({'node_name': name, 'node_index': sp['nidx'],
                            'cores': [RO(index=i, occuapation=1.0) for i in range(sp['cores'])],   # sic (agent_0)
                            'gpus': [RO(index=i, occuapation=1.0) for i in range(sp['gpus'])], 'lfs': 0, 'mem': 0})
            elif w == 'old_complete':
                out.append({'node_name': name, 'node_index': sp['nidx'], 'cores': list(range(sp['cores'])),
                            'gpus': list(range(sp['gpus'])), 'lfs': sp['lfs'], 'mem': sp['mem']})
            else:
                raise RuntimeError(w)
        return out

    def _tag_pslot(self, s):
        from radical.pilot.resource_config import Slot
        typed = isinstance(s, Slot)
        if not typed and type(s) is not dict:
            raise ValueError('slot is a %s' % type(s).__name__)
        known = {'cores', 'gpus', 'lfs', 'mem', 'node_index', 'node_name', 'version'}
        if not ({'cores', 'gpus'} <= set(s.keys()) <= known):
            raise ValueError('slot keys %s' % sorted(s.keys()))
        for k in ('lfs', 'mem', 'node_index', 'version'):
            if k in s and s[k] is not None and type(s[k]) is not int:
                raise ValueError('%s is %r' % (k, s[k]))
        g = lambda k: s[k] if k in s.keys() else None
        return {'typed': typed, 'version': g('version'), 'cores': self._tag_res(s['cores']),
                'gpus': self._tag_res(s['gpus']), 'lfs': g('lfs'), 'mem': g('mem'), 'nidx': g('node_index'),
                'nname': g('node_name')}

    def _run_client(self, case):
        """A real Task (built without __init__) gets the writer's slots through the real Task._update;
        then Task.slots (twice) and Task.as_dict() are read."""
        import threading
        from unittest import mock
        import radical.utils as ru
        import radical.pilot.states as rps
        from radical.pilot.task import Task
        written = self._write_slots(case)
        if case['transported'] and written is not None:
            written = ru.as_dict(written)           # what the message layer delivers: plain dicts
        obs = {'written': 'hombre' if isinstance(written, dict) else
                          None if written is None else [self._tag_pslot(s) for s in written]}
        with mock.patch.object(Task, '__init__', return_value=None):
            t = Task()
        t._uid, t._state, t._log, t._slots = 'task.000000', rps.AGENT_SCHEDULING, mock.Mock(), None
        t._descr = self.rp.TaskDescription({'executable': 'x', 'uid': 'task.000000'})
        t._tmgr, t._session = mock.Mock(), mock.Mock()
        t._tmgr.uid = 'tmgr.0000'
        for a in ('origin', 'exit_code', 'stdout', 'stderr', 'return_value', 'exception', 'exception_detail', 'pilot',
                  'endpoint_fs', 'resource_sandbox', 'session_sandbox', 'pilot_sandbox', 'task_sandbox',
                  'client_sandbox', 'info', 'partition', 'ofiles'):
            setattr(t, '_' + a, None)
        t._info_evt, t._callbacks = threading.Event(), {}
        inv = {v: k for k, v in rps._task_state_values.items()}
        nxt = lambda st: inv[rps._task_state_values[st] + 1]
        msg = {'uid': t._uid, 'state': nxt(t._state)}
        if written is not None:
            msg['slots'] = written
        t._update(msg)
        if case['second_update']:
            msg2 = {'uid': t._uid, 'state': nxt(t._state)}
            if case['second_update'] == 'again' and written is not None:
                msg2['slots'] = copy.deepcopy(written) if not isinstance(written, dict) else written
            t._update(msg2)
        try:
            first = t.slots
            obs['slots'] = [] if first is None else [self._tag_pslot(s) for s in first]
        except (KeyError, TypeError, ValueError, AttributeError, IndexError) as e:
            obs['slots'] = {'exc': exc_name(e), 'msg': str(e)[:80]}
        try:
            d = t.as_dict()
            obs['as_dict'] = 'ok'
            second = d['slots']
            obs['again_same'] = ('exc' not in obs['slots'] and
                                 ([] if second is None else [self._tag_pslot(s) for s in second]) == obs['slots'])
        except (KeyError, TypeError, ValueError, AttributeError, IndexError) as e:
            obs['as_dict'] = exc_name(e)
            obs['again_same'] = False
        return obs

    def _bulk_run(self, srcs, calls):
        """The real TaskManager.submit_tasks (TaskManager built without __init__; advance() records) on
        fresh description objects made from `srcs`.  Generated uids are renamed GEN<k> in the order
        they were generated.  Returns per call: exception kind, the objects whose tasks were handed on,
        how many tasks were constructed, and the _data of every object after the call."""
        import threading
        from unittest import mock
        import radical.utils as ru
        import radical.pilot.states as rps
        from radical.pilot.task_manager import TaskManager
        with mock.patch.object(TaskManager, '__init__', return_value=None):
            tm = TaskManager()
        tm._tasks_lock, tm._rep, tm._log = threading.RLock(), mock.Mock(), mock.Mock()
        tm._session = mock.Mock()
        tm._session.uid = 'sess.c19'
        tm._known_uids, tm._tasks, tm._uid = set(), {}, 'tmgr.0000'
        rec = []

        def advance(things, state=None, publish=True, push=False, **kw):
            rec.append((state, [t['uid'] for t in (things if isinstance(things, list) else [things])]))
        tm.advance = advance
        generated = []
        real_gen = ru.generate_id

        def gen(*a, **k):
            u = real_gen(*a, **k)
            generated.append(u)
            return u
        objs = [self.rp.TaskDescription(from_dict=copy.deepcopy(x)) for x in srcs]

        def snap():
            ren = {u: 'GEN%d' % i for i, u in enumerate(generated)}
            out = []
            for o in objs:
                d = dict(o._data)
                if d.get('uid') in ren:
                    d['uid'] = ren[d['uid']]
                out.append(tag_descr(d))
            return out
        res = []
        with mock.patch.object(ru, 'generate_id', side_effect=gen):
            for ids in calls:
                del rec[:]
                exc = None
                try:
                    tasks = tm.submit_tasks([objs[i] for i in ids])
                    if [t.description is objs[i] for t, i in zip(tasks, ids)] != [True] * len(ids):
                        raise RuntimeError('returned tasks do not carry the descriptions passed')
                except (KeyError, TypeError, ValueError, AttributeError) as e:
                    exc = exc_name(e)
                ren = {u: 'GEN%d' % i for i, u in enumerate(generated)}
                handed = [u for st, us in rec if st == rps.TMGR_SCHEDULING_PENDING for u in us]
                made = sum(len(us) for st, us in rec if st == rps.NEW)
                by_uid = {}
                for i in ids:
                    by_uid.setdefault(objs[i]._data.get('uid'), i)
                res.append({'exc': exc, 'handed': [by_uid[u] for u in handed], 'made': made, 'snap': snap(),
                            'known': sorted(ren.get(u, str(u)) for u in tm._known_uids)})
        if len(set(generated)) != len(generated):
            raise RuntimeError('generated uids are not unique: %s' % generated)
        return res

    def _run_bulk(self, case):
        res = self._bulk_run(case['srcs'], case['calls'])
        # reference for a refused call: the same history, that call with only the siblings handled
        # before the refusal
        refs = []
        for c, r in enumerate(res):
            if r['exc'] is None:
                continue
            pre = case['calls'][c][:r['made']]
            ref = self._bulk_run(case['srcs'], case['calls'][:c] + [pre]) if pre else None
            refs.append({'call': c, 'pre': pre, 'ref': ref[-1]['snap'] if ref else None,
                         'ref_exc': ref[-1]['exc'] if ref else None})
        return {'calls': res, 'refs': refs}

    def _run_decseq(self, case):
        """Encode once; then get_func_attr on the SAME string again and again, the results of earlier
        decodes being changed in place in between.  Every result is looked at right when it is returned."""
        rp = self.rp
        f = Stateful(case['state'])
        args, kw = copy.deepcopy(case['args']), copy.deepcopy(case['kwargs'])
        want = f(*args, **kw)
        w = rp.PythonTask(f, tuple(args), kw) if case['via'] == 'class' else rp.pythontask(f)(*args, **kw)
        args.append('SPOILED')                      # the encoder's own objects are out of the game
        kw.clear()
        res, out = [], []
        for op in case['ops']:
            if op[0] == 'decode':
                g, a, k = rp.PythonTask.get_func_attr(w)
                res.append((g, a, k))
                same = (g(*copy.deepcopy(a), **copy.deepcopy(k)) == want)
                out.append({'state': g.state, 'args': [tag_val(x) for x in a],
                            'kwargs': [[kk, tag_val(v)] for kk, v in k.items()], 'same': bool(same)})
                continue
            g, a, k = res[op[1]]
            m = op[2:]
            if m[0] == 'args_append':
                a.append(m[1])
            elif m[0] == 'arg_nested':
                if m[1] < len(a):
                    t = a[m[1]]             # a scalar there: nothing to change (the model says the same)
                    if isinstance(t, list):
                        t.append(m[2])
                    elif isinstance(t, dict):
                        t[''] = m[2]
            elif m[0] == 'kw_set':
                k[m[1]] = m[2]
            elif m[0] == 'kw_del':
                k.pop(m[1], None)
            elif m[0] == 'kw_nested':
                if m[1] in k:
                    t = k[m[1]]
                    if isinstance(t, list):
                        t.append(m[3])
                    elif isinstance(t, dict):
                        t[m[2]] = m[3]
            elif m[0] == 'func_state':
                g.state = m[1]
            else:
                raise RuntimeError(m[0])
        return {'decodes': out}

    def _run_dispatch(self, case):
        """raptor.worker.Worker._dispatch_func (the real method; __init__ mocked, log/prof mocks) on k tasks
        that carry the same encoded function; for MPI tasks the worker injects the communicator."""
        import asyncio
        from unittest import mock
        from radical.pilot.raptor.worker import Worker
        rp = self.rp
        with mock.patch.object(Worker, '__init__', return_value=None):
            worker = Worker()
        worker._log, worker._prof = mock.Mock(), mock.Mock()
        how = case['how']
        if how == 'kw':
            fn, a, k, comm = mpi_kw, ('ranks',), {'comm': None}, True
            expected = mpi_kw('ranks', comm=FakeComm())
        elif how == 'arg':
            fn, a, k, comm = mpi_arg, (None, 'ranks'), {}, True
            expected = mpi_arg(FakeComm(), 'ranks')
        else:
            fn, a, k, comm = plain_kw, ('ranks',), {'n': 2}, False
            expected = plain_kw('ranks', n=2)
        w = rp.PythonTask(fn, a, k) if case['via'] == 'class' else rp.pythontask(fn)(*a, **k)
        out = []
        for i in range(case['runs']):
            task = {'uid': 'task.%04d' % i, 'description': {'function': w, 'args': [], 'kwargs': {}, 'environment': {}}}
            if comm:
                task['mpi_comm'] = FakeComm()
            try:
                o, e, ret, val, exc = asyncio.run(worker._dispatch_func(task))
                out.append({'ok': bool(ret == 0 and val == expected), 'ret': ret, 'val': repr(val), 'exc': str(exc[0])[:80]})
            except Exception as e:
                out.append({'ok': False, 'raised': '%s: %s' % (type(e).__name__, str(e)[:80])})
        return {'runs': out, 'expected': repr(expected)}

    def _run_slotdefault(self, case):
        from radical.pilot.resource_config import Slot, RO
        out = []
        for i in range(case['n']):
            sl = Slot()
            out.append(self._tag_slot(sl))          # as constructed ...
            sl.cores.append(RO(index=i, occupation=1.0))     # ... then mutated in place
            sl.gpus.append(RO(index=i, occupation=0.5))
        return {'fresh': out}

    def _run_case(self, case):
        if case['kind'] == 'client':
            return self._run_client(case)
        if case['kind'] == 'bulk':
            return self._run_bulk(case)
        if case['kind'] == 'decseq':
            return self._run_decseq(case)
        if case['kind'] == 'dispatch':
            return self._run_dispatch(case)
        if case['kind'] == 'slotdefault':
            return self._run_slotdefault(case)
        if case['kind'] == 'dseq':
            return self._run_dseq(case)
        if case['kind'] == 'envk':
            return self._run_envk(case)
        if case['kind'] == 'envseq':
            return self._run_envseq(case)
        if case['kind'] in ('td', 'pd'):
            return self._run_td(case)
        if case['kind'] == 'slots':
            return self._run_slots(case)
        return self._run_env(case)

    # ------------------------------------------------------------------ coq
    def _coq_res(self, spec):
        kind, data = spec
        if kind == 'ints':
            return '(RInts %s)' % L.zlist(data)
        if kind == 'lists':
            return '(RLists %s)' % L.lst([L.zlist(x) for x in data])
        c = {'dicts': 'RDicts', 'ros': 'RROs', 'pairs': 'RPairs'}[kind]
        return '(%s %s)' % (c, L.lst([L.pair(L.Z(i), L.opt(None if q is None else L.Z(q))) for i, q in data]))

    def _coq_slot(self, s):
        return '(mkSlot %s %s %s %s %s %s %s %s)' % (
            L.boolean(s['typed']), L.opt(None if s['version'] is None else L.Z(s['version'])),
            self._coq_res(s['cores']), self._coq_res(s['gpus']), L.Z(s['lfs']), L.Z(s['mem']), L.Z(s['nidx']),
            L.string(s['nname']))

    OPS = {'new': 'OpNew', 'old': 'OpOld', 'ctor': 'OpCtor', 'asdict': 'OpAsDict'}

    def _coq_kw(self, kw):
        if kw is None:
            return 'None'
        return '(Some %s)' % L.lst([L.pair(L.string(k), coq_atom(v)) for k, v in kw])

    def coq_row(self, case, obs):
        if case['kind'] in ('td', 'pd'):
            x = coq_descr(tag_descr(case['d']))
            # equal snapshots share one literal (let-bound)
            names, lets = {}, []

            def ref(td):
                key = repr(td)
                if key not in names:
                    names[key] = 's%d' % len(names)
                    lets.append('let %s := %s in ' % (names[key], coq_descr(td)))
                return names[key]
            c, rt = ref(obs['c']), ref(obs['rt'])
            if isinstance(obs['v1'], dict):
                v1, v2, rtv = '(inl %s)' % errname(obs['v1']['exc']), 'None', 'None'
            else:
                v1 = '(inr %s)' % ref(obs['v1'])
                v2 = '(Some (inl %s))' % errname(obs['v2']['exc']) if isinstance(obs['v2'], dict) \
                    else '(Some (inr %s))' % ref(obs['v2'])
                rtv = '(Some %s)' % ref(obs['rtv'])
            twx, tw = 'None', 'None'
            if case['kind'] == 'td':
                t = self.twin_input(case['d'])
                if (t is None) != ('twin' not in obs):
                    raise RuntimeError('twin missing from the observation')
                if t is not None:
                    twx = '(Some %s)' % coq_descr(tag_descr(t))
                    tv = obs['twin']['v']
                    tw = '(Some (inl %s))' % errname(tv['exc']) if isinstance(tv, dict) else '(Some (inr %s))' % ref(tv)
            return '(%sc19_%s_row %s_table %s (mkTdObs %s %s %s %s %s %s %s))' % (
                ''.join(lets), case['kind'], case['kind'], x, c, rt, v1, v2, rtv, twx, tw)
        if case['kind'] == 'slots':
            st = []
            for s in obs['stages']:
                if isinstance(s, dict):
                    st.append('(inl %s)' % errname(s['exc']))
                else:
                    st.append('(inr %s)' % L.lst([self._coq_slot(x) for x in s]))
            return '(c19_slots_row %s %s %s %s %s)' % (
                L.lst([self.OPS[o] for o in case['ops']]), L.lst([self._coq_slot(s) for s in case['slots']]),
                L.lst(st), L.lst([self._coq_slot(s) for s in obs['input_after']]), L.boolean(obs['rerun_same']))
        if case['kind'] == 'client':
            w = obs['written']
            c = 'CRanksDict' if w == 'hombre' else 'CNothing' if w is None else \
                '(CSlots %s)' % L.lst([self._coq_pslot(x) for x in w])
            o = '(inl %s)' % errname(obs['slots']['exc']) if isinstance(obs['slots'], dict) else \
                '(inr %s)' % L.lst([self._coq_pslot(x) for x in obs['slots']])
            return '(c19_client_row %s %s %s %s)' % (c, o, L.boolean(obs['as_dict'] == 'ok'), L.boolean(obs['again_same']))
        if case['kind'] == 'bulk':
            names, lets = {}, []

            def sref(td):
                key = repr(td)
                if key not in names:
                    names[key] = 'b%d' % len(names)
                    lets.append('let %s := %s in ' % (names[key], coq_descr(td)))
                return names[key]
            srcs = L.lst([coq_descr(tag_descr(x)) for x in case['srcs']])
            calls = L.lst([L.lst([L.nat(i) for i in ids]) for ids in case['calls']])
            ob = L.lst(['(%s, %s, %s)' % ('None' if r['exc'] is None else '(Some %s)' % errname(r['exc']),
                                          L.lst([L.nat(i) for i in r['handed']]),
                                          L.lst([sref(d) for d in r['snap']])) for r in obs['calls']])
            refs = []
            for r in obs['refs']:
                if r['ref'] is None:
                    continue
                if r['ref_exc'] is not None:
                    raise RuntimeError('the reference call (siblings only) raised %s' % r['ref_exc'])
                refs.append('(%s, %s, %s)' % (L.lst([L.nat(i) for i in r['pre']]),
                                              L.lst([sref(d) for d in obs['calls'][r['call']]['snap']]),
                                              L.lst([sref(d) for d in r['ref']])))
            return '(%sc19_bulk_row td_table %s %s %s %s)' % (''.join(lets), srcs, calls, ob, L.lst(refs))
        if case['kind'] == 'decseq':
            x = self._coq_dres(case['state'], [tag_val(a) for a in case['args']],
                               [[k, tag_val(v)] for k, v in case['kwargs'].items()])
            ob = L.lst(['(%s, %s)' % (self._coq_dres(o['state'], o['args'], o['kwargs']), L.boolean(o['same']))
                        for o in obs['decodes']])
            return '(c19_decseq_row %s %s %s)' % (x, self._coq_rops(case), ob)
        if case['kind'] == 'dispatch':
            return '(c19_dispatch_row %s)' % L.lst([L.boolean(r['ok']) for r in obs['runs']])
        if case['kind'] == 'slotdefault':
            return '(c19_slotdefault_row %s)' % L.lst([self._coq_slot(x) for x in obs['fresh']])
        if case['kind'] == 'dseq':
            if obs['errs']:
                raise RuntimeError('verify raised in a sequence of valid descriptions: %s' % obs['errs'])
            fin = L.lst([L.pair(L.nat(i), coq_descr(d)) for i, d in obs['final']])
            return '(c19_dseq_row %s %s_table %s %s)' % (L.boolean(case['cls'] == 'pd'), case['cls'],
                                                        self._coq_dops(case), fin)
        if case['kind'] == 'envk':
            kw = None if case['kwargs'] is None else [[k, tag_atom(v)] for k, v in case['kwargs'].items()]
            if case['via'] == 'decor' and kw is None:
                kw = []
            so = '(inl %s)' % errname(obs['ser']['exc']) if 'exc' in obs['ser'] else '(inr %s)' % L.boolean(obs['ser']['same'])
            t = obs['tr']
            o = '(inl %s)' % errname(t['exc']) if 'exc' in t else '(inr (%s, %s, %s))' % (
                L.lst([coq_atom(a) for a in t['args']]), self._coq_kw(t['kwargs']), L.boolean(t['same']))
            return '(c19_envk_row %s %s %s true %s %s %s %s)' % (
                L.boolean(obs['val_ok']), L.boolean(obs['ref_ok']), L.boolean(obs['pk_ok']),
                L.lst([coq_atom(tag_atom(a)) for a in case['args']]), self._coq_kw(kw), so, o)
        if case['kind'] == 'envseq':
            return '(c19_envseq_row %s %s %s %s)' % (L.boolean(case['via'] == 'decor'), L.Z(case['s0']),
                                                   self._coq_steps(case), self._coq_seq_obs(obs))
        callable_ = callable(FUNCS[case['func']])
        args = L.lst([coq_atom(tag_atom(a)) for a in case['args']])
        kw = None if case['kwargs'] is None else [[k, tag_atom(v)] for k, v in case['kwargs'].items()]
        if case['via'] == 'decor' and kw is None:
            kw = []
        if 'exc' in obs:
            o = '(inl %s)' % errname(obs['exc'])
        else:
            o = '(inr (%s, %s, %s))' % (L.lst([coq_atom(a) for a in obs['args']]), self._coq_kw(obs['kwargs']),
                                        L.boolean(obs['same'] and obs['callable']))
        return '(c19_env_row %s %s %s %s)' % (L.boolean(callable_), args, self._coq_kw(kw), o)

    def _coq_pslot(self, s):
        oz = lambda v: L.opt(None if v is None else L.Z(v))
        return '(mkPSlot %s %s %s %s %s %s %s %s)' % (
            L.boolean(s['typed']), oz(s['version']), self._coq_res(s['cores']), self._coq_res(s['gpus']),
            oz(s['lfs']), oz(s['mem']), oz(s['nidx']), L.opt(None if s['nname'] is None else L.string(s['nname'])))

    @staticmethod
    def _coq_dres(state, args_tagged, kw_tagged):
        return '(mkDres %s %s %s)' % (L.Z(state), L.lst([coq_val(a) for a in args_tagged]),
                                      L.lst([L.pair(L.string(k), coq_val(v)) for k, v in kw_tagged]))

    def _coq_rops(self, case):
        out = []
        for op in case['ops']:
            if op[0] == 'decode':
                out.append('RDecode')
                continue
            m = op[2:]
            if m[0] == 'args_append':
                mm = '(MArgsAppend %s)' % coq_val(tag_val(m[1]))
            elif m[0] == 'arg_nested':
                mm = '(MArgNested %s %s)' % (L.nat(m[1]), coq_atom(tag_atom(m[2])))
            elif m[0] == 'kw_set':
                mm = '(MKwSet %s %s)' % (L.string(m[1]), coq_val(tag_val(m[2])))
            elif m[0] == 'kw_del':
                mm = '(MKwDel %s)' % L.string(m[1])
            elif m[0] == 'kw_nested':
                mm = '(MKwNested %s %s %s)' % (L.string(m[1]), L.string(m[2]), coq_atom(tag_atom(m[3])))
            else:
                mm = '(MFuncState %s)' % L.Z(m[1])
            out.append('(RMutate %s %s)' % (L.nat(op[1]), mm))
        return L.lst(out)

    def _coq_dops(self, case):
        out = []
        for op in case['ops']:
            if op[0] == 'construct':
                out.append('(DConstruct %s %s)' % (L.nat(op[1]), coq_descr(tag_descr(op[2]))))
            elif op[0] == 'verify':
                out.append('(DVerify %s)' % L.nat(op[1]))
            elif op[0] == 'append':
                out.append('(DAppend %s %s %s %s)' % (L.nat(op[1]), L.string(op[2]), L.string(op[3]),
                                                      coq_atom(tag_atom(op[4]))))
            else:
                out.append('(DForeign %s)' % L.nat(op[1]))
        return L.lst(out)

    def _coq_steps(self, case):
        out = []
        for st in case['steps']:
            kw = None if st['kwargs'] is None else [[k, tag_atom(v)] for k, v in st['kwargs'].items()]
            out.append('(mkStep %s %s %s)' % (L.Z(st['state']), L.lst([coq_atom(tag_atom(a)) for a in st['args']]),
                                              self._coq_kw(kw)))
        return L.lst(out)

    def _coq_seq_obs(self, obs):
        out = []
        for o in obs['steps']:
            if 'exc' in o:
                out.append('(inl %s)' % errname(o['exc']))
            else:
                out.append('(inr (%s, %s, %s, %s))' % (L.Z(o['state']), L.lst([coq_atom(a) for a in o['args']]),
                                                       self._coq_kw(o['kwargs']), L.boolean(o['same'])))
        return L.lst(out)

    def model_show(self, case):
        if case['kind'] == 'client':
            return None
        if case['kind'] == 'bulk':
            return ('map (fun r => (fst (fst r), snd (fst r))) (snd (submit_calls (verify td_table) %s '
                    '(mkSub (init_store td_table %s) [] 0)))' % (
                        L.lst([L.lst([L.nat(i) for i in ids]) for ids in case['calls']]),
                        L.lst([coq_descr(tag_descr(x)) for x in case['srcs']])))
        if case['kind'] == 'decseq':
            x = self._coq_dres(case['state'], [tag_val(a) for a in case['args']],
                               [[k, tag_val(v)] for k, v in case['kwargs'].items()])
            return 'snd (run_fresh %s %s [])' % (x, self._coq_rops(case))
        if case['kind'] == 'dispatch':
            return None
        if case['kind'] == 'slotdefault':
            return 'default_slot'
        if case['kind'] == 'dseq':
            T = case['cls'] + '_table'
            vf = 'verify' if case['cls'] == 'td' else 'pd_verify'
            return 'drun (construct %s) (%s %s) %s []' % (T, vf, T, self._coq_dops(case))
        if case['kind'] == 'envk':
            return ('(serialize_id true true, serialize_id false true, serialize_id false false) '
                    '(* serialize_obj for (by value ok, by reference ok) = (T,T), (F,T), (F,F); the measured pair is '
                    'in the observation: val_ok, ref_ok *)')
        if case['kind'] == 'envseq':
            return 'transport_seq_id %s %s %s' % (L.boolean(case['via'] == 'decor'), L.Z(case['s0']),
                                                  self._coq_steps(case))
        if case['kind'] == 'td':
            x = coq_descr(tag_descr(case['d']))
            return '(construct td_table %s, verify td_table (construct td_table %s))' % (x, x)
        if case['kind'] == 'pd':
            x = coq_descr(tag_descr(case['d']))
            return '(construct pd_table %s, pd_verify pd_table (construct pd_table %s))' % (x, x)
        if case['kind'] == 'slots':
            return 'run_sops %s %s' % (L.lst([self.OPS[o] for o in case['ops']]),
                                       L.lst([self._coq_slot(s) for s in case['slots']]))
        kw = None if case['kwargs'] is None else [[k, tag_atom(v)] for k, v in case['kwargs'].items()]
        return 'transport_id %s %s %s' % (L.boolean(callable(FUNCS[case['func']])),
                                          L.lst([coq_atom(tag_atom(a)) for a in case['args']]), self._coq_kw(kw))

    def describe(self, case):
        if case['kind'] == 'td':
            t = self.twin_input(case['d'])
            if t is not None:
                return dict(case, twin=t, note='twin_same compares verify(d) with verify(twin): deprecated names '
                                               'replaced by the current ones')
        return case

    # ------------------------------------------------------------------ meta
    def nontrivial(self, case, obs):
        if case['kind'] == 'client':
            return case['writer'] not in ('none', 'empty')
        if case['kind'] == 'bulk':
            return len(case['srcs']) >= 2
        if case['kind'] in ('decseq', 'dispatch'):
            return True
        if case['kind'] == 'slotdefault':
            return True
        if case['kind'] == 'dseq':
            return True
        if case['kind'] == 'envk':
            return True
        if case['kind'] == 'envseq':
            return True
        if case['kind'] in ('td', 'pd'):
            return len(case['d']) >= 2
        if case['kind'] == 'slots':
            return any(s['cores'][1] or s['gpus'][1] for s in case['slots'])
        return callable(FUNCS[case['func']])

    def signature(self, case, obs, clause):
        if case['kind'] == 'client':
            what = 'raises-' + obs['slots']['exc'] if isinstance(obs['slots'], dict) else \
                   'as_dict-raises-' + obs['as_dict'] if obs['as_dict'] != 'ok' else 'placement-differs'
            return '%s:Task.slots:writer=%s:%s' % (clause, case['writer'], what)
        if case['kind'] == 'bulk':
            refused = any(r['exc'] is not None for r in obs['calls'])
            what = 'uid-of-a-sibling' if any(
                dict(d).get('uid') != ['s', src['uid']] for r in obs['calls']
                for src, d in zip(case['srcs'], r['snap']) if isinstance(src.get('uid'), str)
                and src['uid'] != 'app.bad') else 'other-attribute'
            return '%s:TaskManager.submit_tasks:%s:%s' % (clause, 'refused-bulk' if refused else 'accepted-bulk', what)
        if case['kind'] == 'decseq':
            want = {'state': case['state'], 'args': [tag_val(a) for a in case['args']],
                    'kwargs': [[k, tag_val(v)] for k, v in case['kwargs'].items()]}
            part = 'result-of-call'
            for o in obs['decodes']:
                bad = [p for p in ('state', 'args', 'kwargs') if o[p] != want[p]]
                if bad:
                    part = {'state': 'callable', 'args': 'args', 'kwargs': 'kwargs'}[bad[0]]
                    break
            return '%s:PythonTask.get_func_attr:later-decode-differs-in-%s' % (clause, part)
        if case['kind'] == 'dispatch':
            return '%s:Worker._dispatch_func:%s' % (clause, case['how'])
        if case['kind'] == 'slotdefault':
            return '%s:Slot:class-default-mutated' % clause
        if case['kind'] == 'dseq':
            # the one leak recorded for the unchanged tree: an attribute that still holds the CLASS default
            # object is mutated in place before verify() replaced it
            name = 'TaskDescription' if case['cls'] == 'td' else 'PilotDescription'
            given, verified = {}, set()
            for op in case['ops']:
                if op[0] == 'construct':
                    given[op[1]] = set(op[2])
                    verified.discard(op[1])
                elif op[0] == 'verify':
                    verified.add(op[1])
                elif op[0] == 'append' and op[1] not in verified and op[2] not in given.get(op[1], ()):
                    return '%s:%s:class-default-mutated-before-verify' % (clause, name)
            return '%s:%s:state-carried-across-descriptions' % (clause, name)
        if case['kind'] == 'envk':
            how = 'by-value' if obs['val_ok'] else 'by-reference-only' if obs['ref_ok'] else \
                  'pickle-only' if obs['pk_ok'] else 'unpicklable'
            t = obs['tr']
            what = 'raises-' + t['exc'] if 'exc' in t else 'result-differs' if not t['same'] else \
                   'serialize_obj-' + obs['ser'].get('exc', 'differs')
            return '%s:serialize_obj:%s:%s' % (clause, how, what)
        if case['kind'] == 'envseq':
            cond = 'other'
            for st, o in zip(case['steps'], obs['steps']):
                if 'exc' in o:
                    cond = 'raises'
                elif o['state'] == case['s0'] and st['state'] != case['s0']:
                    cond = 'function-value-of-decoration-time'
                elif o['state'] != st['state']:
                    cond = 'function-value-of-another-time'
                else:
                    continue
                break
            return '%s:PythonTask.%s:stateful:%s' % (clause, case['via'], cond)
        if case['kind'] == 'pd':
            return '%s:PilotDescription.verify' % clause
        if case['kind'] == 'td':
            T = table()
            if clause == 'alias_preserved':
                lost = []
                falsy = (['n'], ['b', False], ['i', 0], ['f', 0], ['s', ''])
                if not isinstance(obs['v1'], dict):
                    v = dict((k, x) for k, x in obs['v1'])
                    for src, dst, conv, rf in T['aliases']:
                        # the deprecated name was given and is still set after verify
                        if case['d'].get(src) not in (None, '', False) and v.get(src, ['n']) not in falsy:
                            lost.append(src)
                return '%s:TaskDescription._verify:%s' % (clause, '+'.join(lost[:1]) or 'value-differs')
            if clause == 'twin_same' and 'twin' in obs:
                a, b = obs['v1'], obs['twin']['v']
                if isinstance(a, dict) or isinstance(b, dict):
                    diff = ['outcome']
                else:
                    srcs = {x[0] for x in T['aliases']}
                    bd = dict((k, x) for k, x in b)
                    diff = [k for k, x in a if k not in srcs and bd.get(k) != x] or ['deprecated-name-still-set']
                return '%s:TaskDescription._verify:%s' % (clause, '+'.join(diff[:3]))
            return '%s:TaskDescription.verify' % clause
        if case['kind'] == 'slots' and clause == 'sequence_independent':
            op0 = case['ops'][0]
            kinds = sorted({x[r][0] for x in case['slots'] for r in ('cores', 'gpus') if x[r][1]})
            plain = any(not x['typed'] for x in case['slots'])
            what = 'input-mutated' if obs['input_after'] != case['slots'] else 'second-application-differs'
            if op0 == 'ctor' and plain:
                return '%s:Slot.__init__:input-dict-mutated-or-shared' % clause
            if op0 == 'new' and 'ros' in kinds and plain:
                return '%s:convert_slots_to_new:ros:output-shares-input-list' % clause
            return '%s:convert_slots:%s:%s:%s' % (clause, op0, '+'.join(kinds) or 'empty', what)
        if case['kind'] == 'slots':
            stages = obs['stages']
            i = len(stages) - 1
            for j, s in enumerate(stages):
                if isinstance(s, dict):
                    i = j
                    break
            src = case['slots'] if i == 0 else stages[i - 1]
            kinds = sorted({s[r][0] for s in src for r in ('cores', 'gpus') if s[r][1]})
            cond = 'lists' if 'lists' in kinds else '+'.join(kinds) or 'empty'
            for j, s in enumerate(stages):
                if not isinstance(s, dict):
                    pl = lambda ss: [(x['nidx'], x['nname'], self._flat(x['cores']), self._flat(x['gpus'])) for x in ss]
                    if pl(s) != pl(case['slots']):
                        i = j
                        src = case['slots'] if i == 0 else stages[i - 1]
                        kinds = sorted({x[r][0] for x in src for r in ('cores', 'gpus') if x[r][1]})
                        cond = 'lists' if 'lists' in kinds else '+'.join(kinds) or 'empty'
                        break
            return '%s:convert_slots:%s:%s' % (clause, case['ops'][i], cond)
        return '%s:PythonTask.%s:kwargs=%s' % (clause, case['via'], 'None' if case['kwargs'] is None else 'dict')

    @staticmethod
    def _flat(spec):
        kind, data = spec
        if kind == 'ints':
            return list(data)
        if kind == 'lists':
            return [y for x in data for y in x]
        return [i for i, _ in data]

    def shrink(self, case):
        if case['kind'] == 'client':
            if len(case['specs']) > 1:
                yield dict(case, specs=case['specs'][:1])
            if case['second_update']:
                yield dict(case, second_update=None)
            return
        if case['kind'] == 'bulk':
            srcs, calls = case['srcs'], case['calls']
            if len(calls) > 1:
                yield dict(case, calls=calls[:-1])
            for i in range(len(srcs)):                  # drop an object everywhere
                if len(srcs) > 1:
                    c2 = [[(j if j < i else j - 1) for j in ids if j != i] for ids in calls]
                    if all(c2):
                        yield dict(case, srcs=srcs[:i] + srcs[i + 1:], calls=c2)
            for i, x in enumerate(srcs):                # drop an attribute
                for k in list(x):
                    if k not in ('executable', 'mode', 'uid'):
                        yield dict(case, srcs=srcs[:i] + [{a: b for a, b in x.items() if a != k}] + srcs[i + 1:])
            return
        if case['kind'] == 'dispatch':
            if case['runs'] > 2:
                yield dict(case, runs=case['runs'] - 1)
            return
        if case['kind'] == 'decseq':
            ops = case['ops']
            for i, op in enumerate(ops):
                if i == 0:
                    continue
                cand = ops[:i] + ops[i + 1:]
                ndec, ok = 0, True
                for o in cand:                      # mutations only of results that exist
                    if o[0] == 'decode':
                        ndec += 1
                    elif o[1] >= ndec:
                        ok = False
                if ok and op[0] == 'decode':
                    # dropping a decode renumbers the later results: only drop the last one
                    ok = not any(o[0] == 'mut' and o[1] >= sum(1 for q in ops[:i] if q[0] == 'decode')
                                 for o in ops[i + 1:])
                if ok and cand[-1][0] == 'decode':
                    yield dict(case, ops=cand)
            return
        if case['kind'] == 'slotdefault':
            if case['n'] > 2:
                yield dict(case, n=case['n'] - 1)
            return
        if case['kind'] == 'dseq':
            ops = case['ops']

            def valid(seq):
                # the dict given to a constructor is only touched after verify() of that description:
                # before, the description shares its lists with it (the model says so, too)
                verified = set()
                for o in seq:
                    if o[0] == 'construct':
                        verified.discard(o[1])
                    elif o[0] == 'verify':
                        verified.add(o[1])
                    elif o[0] == 'mut_input' and o[1] not in verified:
                        return False
                return True

            def leaky(seq):
                # in-place mutations of an attribute that still holds the class default (the recorded
                # finding): shrinking must not turn another failure into that one
                n, given, verified = 0, {}, set()
                for o in seq:
                    if o[0] == 'construct':
                        given[o[1]] = set(o[2])
                        verified.discard(o[1])
                    elif o[0] == 'verify':
                        verified.add(o[1])
                    elif o[0] == 'append' and o[1] not in verified and o[2] not in given.get(o[1], ()):
                        n += 1
                return n
            for i, op in enumerate(ops):
                if op[0] in ('append', 'mut_input', 'mut_asdict', 'verify'):
                    cand = ops[:i] + ops[i + 1:]
                    if valid(cand) and leaky(cand) <= leaky(ops):
                        yield dict(case, ops=cand)
            for slot in (1, 2):
                rest = [o for o in ops if o[1] != slot]
                if len(rest) < len(ops) and any(o[0] == 'construct' and o[1] != 0 for o in rest):
                    yield dict(case, ops=rest)
            return
        if case['kind'] == 'envk':
            if case['args']:
                yield dict(case, args=case['args'][:-1])
            if case['kwargs']:
                yield dict(case, kwargs=None)
            return
        if case['kind'] == 'envseq':
            st = case['steps']
            for i in range(len(st)):
                if len(st) > 1:
                    yield dict(case, steps=st[:i] + st[i + 1:])
            for i, x in enumerate(st):
                if x['args']:
                    yield dict(case, steps=st[:i] + [dict(x, args=x['args'][:-1])] + st[i + 1:])
                if x['kwargs']:
                    yield dict(case, steps=st[:i] + [dict(x, kwargs=None)] + st[i + 1:])
            return
        if case['kind'] in ('td', 'pd'):
            d = case['d']
            for k in list(d):
                yield {'kind': case['kind'], 'd': {a: b for a, b in d.items() if a != k}}
            return
        if case['kind'] == 'slots':
            ss, ops = case['slots'], case['ops']
            if len(ops) > 1:
                yield dict(case, ops=ops[:-1])
                yield dict(case, ops=ops[1:])
            for i in range(len(ss)):
                if len(ss) > 1:
                    yield dict(case, slots=ss[:i] + ss[i + 1:])
            for i, s in enumerate(ss):
                for r in ('cores', 'gpus'):
                    kind, data = s[r]
                    for j in range(len(data)):
                        s2 = dict(s)
                        s2[r] = [kind, data[:j] + data[j + 1:]]
                        yield dict(case, slots=ss[:i] + [s2] + ss[i + 1:])
            return
        if case['args']:
            yield dict(case, args=case['args'][:-1])
        if case['kwargs']:
            k = list(case['kwargs'])[0]
            yield dict(case, kwargs={a: b for a, b in case['kwargs'].items() if a != k})

    def distribution(self, results):
        kinds, excs, modes, ndep, ops = {}, {}, {}, {}, {}
        T = table()
        srcs = {a[0] for a in T['aliases']}
        for r in results:
            c = r['case']
            kinds[c['kind']] = kinds.get(c['kind'], 0) + 1
            o = r['obs'] or {}
            if c['kind'] == 'client':
                k = 'client:%s:%s' % (c['writer'], 'transported' if c['transported'] else 'in-process')
                ops[k] = ops.get(k, 0) + 1
            elif c['kind'] == 'bulk':
                k = 'bulk:%s' % c.get('shape')
                ops[k] = ops.get(k, 0) + 1
                for r in o.get('calls', []):
                    e = 'bulk:' + (r['exc'] or 'accepted')
                    excs[e] = excs.get(e, 0) + 1
            elif c['kind'] in ('decseq', 'dispatch'):
                k = '%s:%s' % (c['kind'], c['via'])
                ops[k] = ops.get(k, 0) + 1
            elif c['kind'] == 'slotdefault':
                ops['slotdefault'] = ops.get('slotdefault', 0) + 1
            elif c['kind'] == 'dseq':
                k = 'dseq:%s:%s' % (c['cls'], c.get('template'))
                ops[k] = ops.get(k, 0) + 1
            elif c['kind'] == 'envk':
                how = 'by-value' if o.get('val_ok') else 'by-reference-only' if o.get('ref_ok') else 'none'
                k = 'envk:%s:%s' % (how, 'encoded' if 'exc' not in o.get('tr', {}) else o['tr']['exc'])
                excs[k] = excs.get(k, 0) + 1
            elif c['kind'] == 'envseq':
                k = 'envseq:%s:%s:%d steps' % (c['via'], c['func'], len(c['steps']))
                ops[k] = ops.get(k, 0) + 1
            elif c['kind'] == 'pd':
                e = o.get('v1', {})
                e = e.get('exc', 'accepted') if isinstance(e, dict) else 'accepted'
                excs['pd:' + e] = excs.get('pd:' + e, 0) + 1
            elif c['kind'] == 'td':
                m = str(c['d'].get('mode', 'absent'))
                modes[m] = modes.get(m, 0) + 1
                n = sum(1 for k in c['d'] if k in srcs)
                ndep[n] = ndep.get(n, 0) + 1
                e = o.get('v1', {})
                e = e.get('exc', 'accepted') if isinstance(e, dict) else 'accepted'
                excs['td:' + e] = excs.get('td:' + e, 0) + 1
            elif c['kind'] == 'slots':
                k = '>'.join(c['ops'])
                ops[k] = ops.get(k, 0) + 1
                if o.get('stages') and isinstance(o['stages'][-1], dict):
                    e = 'slots:' + o['stages'][-1]['exc']
                    excs[e] = excs.get(e, 0) + 1
            else:
                e = 'env:' + o.get('exc', 'decoded')
                excs[e] = excs.get(e, 0) + 1
        return dict(kinds=kinds, outcomes=excs, td_modes=modes, td_deprecated_names_set=ndep, slot_pipelines=ops)


PROP = C19()
