"""C17 -- every shipped platform resolves and pilots are sized to fit.

Implementation under test (real code, objects built without __init__):
  Session._init_cfg_from_scratch (stub self)   -> the loader's view of configs/resource_*.json
  Session.get_resource_config (unbound, same stub)
  ResourceManager.create / get_manager, ResourceManager._prepare_launch_methods + LaunchMethod.create,
  AgentSchedulingComponent.create, AgentExecutingComponent.create (constructors of the concrete
  classes replaced by no-ops: only the factories' own code runs)
  PMGRLaunchingComponent._prepare_pilot (set up as tests/unit_tests/test_launcher does), on a real
  rp.PilotDescription;
  PMGRLaunchingComponent._start_pilot_bulk on bulks of several pilots (real get_resource_config once per bulk,
  the same rcfg object for every pilot, %-expansion, real _prepare_pilot writing the agent configs, real
  _stage_in with the real local StagingHelper into sandboxes below a scratch root, real tarball; a recording
  job launcher reads, per pilot, the agent_0.cfg that arrived in its sandbox).
"""
import glob
import json
import os
import re
import sys
from unittest import mock

from . import coqlit as L
from .core import Prop, rp_import, REPO, VERIF

ERRS = ['KeyError', 'TypeError', 'ValueError', 'RuntimeError', 'AttributeError', 'AssertionError']
BATCH_ENV = ['COBALT_JOBID', 'LSB_JOBID', 'PBS_JOBID', 'SLURM_JOB_ID']


def exc_name(e):
    import builtins
    for n in ERRS:
        if isinstance(e, getattr(builtins, n)):
            return n
    return 'OtherError'


def S(s):
    return L.string(s)


def res(obs, ok):
    """obs = {'exc': name} | value  ->  Coq sum literal"""
    if isinstance(obs, dict) and 'exc' in obs:
        return '(inl %s)' % obs['exc']
    return '(inr %s)' % ok(obs)


def strs(l):
    return L.lst([S(x) for x in l])


def schema_lit(s):
    return 'None' if s is None else '(Some %s)' % S(s)


def load_sites():
    """(site, res, [schema names]) from the JSON files, parsed like the translator does."""
    sys.path.insert(0, os.path.join(VERIF, 'translators'))
    out = []
    for path in sorted(glob.glob(os.path.join(REPO, 'src/radical/pilot/configs/resource_*.json'))):
        site = os.path.basename(path)[len('resource_'):-len('.json')]
        try:
            txt = '\n'.join(re.sub(r'^\s*#.*$', '', l) for l in open(path).read().split('\n'))
            d = json.loads(txt)
            for r, c in d.items():
                sch = c.get('schemas') if isinstance(c, dict) else None
                out.append((site, r, list(sch.keys()) if isinstance(sch, dict) else [], c))
        except Exception:
            out.append((site, 'unparsable', [], {}))
    return out


class C17(Prop):
    id = 'C17'
    module = 'c17'
    title = 'Every shipped platform resolves and pilots are sized to fit'
    props_files = ['Props/C17.v']
    extra_targets = ['Configs/Oracle.vo']
    model_targets = ['Configs/Oracle.vo']
    translators = ['configs']
    header = ('From RP Require Import Configs.Model Gen.Configs Configs.Oracle.\n'
              'Open Scope string_scope.\nOpen Scope Z_scope.')
    clauses = ['config_verifies', 'endpoints_defined', 'rm_exists', 'launch_methods_exist', 'scheduler_exists', 'executor_exists',
               'agent_config_exists', 'valid_request_sized', 'min_nodes', 'job_counts', 'agent_told_same',
               'staged_cfg_is_own', 'agent_told_what_job_requests']
    corr_name = ('Configs.Model(resolve/launch/factories) vs Session.get_resource_config, ResourceManager/'
                 'LaunchMethod/AgentSchedulingComponent/AgentExecutingComponent factories and '
                 'PMGRLaunchingComponent._prepare_pilot')
    rule = ('corpus; the loader\'s enumeration of configurations; EVERY shipped configuration x schema (named and '
            'default) resolved outside and inside a batch job; unknown site/resource/schema; every factory on every '
            'table key and on misspelt/empty names; then for EVERY shipped configuration x schema generated pilot '
            'requests (nodes | cores/GPUs around multiples of the node size, backup 0..3, $RADICAL_SMT unset/1/2/4, '
            'mandatory arguments present/absent, and a malformed share: zero/negative sizes, nodes+cores, backup '
            'without nodes, SMT 0); for EVERY shipped configuration x schema a submission bulk of 1-4 pilots through '
            'the real _start_pilot_bulk (1-4 pilots, one resource config object shared by the pilots, agent configs '
            'really written and staged into per-pilot sandboxes after the prepare loop), every pilot and the '
            'agent_0.cfg found in its sandbox checked against the per-pilot clauses; non-trivial = a shipped combination that is resolved, or a sizing run that '
            'reaches the arithmetic (returns figures or trips an assertion), or a bulk of >= 2 launched pilots')
    trusted = [
        'translator translators/configs.py (JSON / ast -> Gen/Configs.v; fail closed)',
        'correspondence harness harness/c17.py: real Session._init_cfg_from_scratch/get_resource_config on a stub '
        'self, real factories with the concrete classes\' constructors replaced by no-ops, real _prepare_pilot with '
        'stub session sandbox getters (as tests/unit_tests/test_launcher); compared inside Coq by vm_compute',
        'library behaviour validated by the correspondence, not verified: radical.utils TypedDict.update/verify, '
        'Config loader (comment filter, file discovery), dict_merge, as_list',
        'float arithmetic: requested / avail_per_node followed by math.ceil equals exact ceiling division for '
        'magnitudes below 2^52 (model uses Z)',
        'driven but not modelled: string expansion of the resource config in _start_pilot_bulk; not modelled: '
        'sandbox layout, bootstrapper '
        'arguments, staging directives, the batch system adaptor that consumes jd_dict, the concrete classes\' '
        'constructors; user configuration directories ($RADICAL_CONFIG_USER_DIR is pointed at an empty directory)',
    ]
    assumptions = ['request figures and node sizes are below 2^52', 'no user-level resource configuration overrides',
                   'batch_started() depends only on the job-id environment variable of the resource manager']
    exhaustive = True
    widen_cases = 3000
    _sig_platforms = {}

    # ------------------------------------------------------------------ cases
    def cases(self, rng, tier):
        sites = load_sites()
        yield {'kind': 'list'}
        combos = []
        for site, r, schemas, c in sites:
            for s in [None] + schemas:
                combos.append((site, r, s, c))
        for site, r, s, c in combos:
            for b in (False, True):
                yield {'kind': 'resolve', 'site': site, 'res': r, 'schema': s, 'batch': b}
        # unknown names
        site0, r0 = sites[0][0], sites[0][1]
        for site, r, s in [('nosuchsite', 'x', None), (site0, 'nosuchres', None), (site0, r0, 'nosuchschema'),
                           (site0, r0, ''), ('local', 'localhost', 'SSH')]:
            yield {'kind': 'resolve', 'site': site, 'res': r, 'schema': s, 'batch': False}
        # factories
        for which, names in self._factory_names(rng):
            for n in names:
                yield {'kind': 'factory', 'which': which, 'name': n, 'jsrun': False}
                if which == 'sched':
                    yield {'kind': 'factory', 'which': which, 'name': n, 'jsrun': True}
        # sizing
        per = 4 if tier == 'quick' else 60
        for site, r, s, c in combos:
            for q in self._requests(rng, c, per):
                yield dict(q, kind='size', site=site, res=r, schema=s)
        # submission bulks: several pilots prepared from ONE resource config object
        nb = 1 if tier == 'quick' else 8
        for site, r, s, c in combos:
            for b in range(nb):
                qs = [q for q in self._requests(rng, c, rng.choice([1, 2, 2, 3, 3, 4]), malformed=(b % 4 == 3))]
                smt = rng.choice([None, None, None, 2, 4]) if b else None
                proj = rng.random() < 0.95
                yield {'kind': 'bulk', 'site': site, 'res': r, 'schema': s, 'smt': smt, 'project': proj,
                       'pilots': [{'nodes': q['nodes'], 'cores': q['cores'], 'gpus': q['gpus'],
                                   'backup': q['backup']} for q in qs]}
        if tier == 'thorough':
            # small-scope exhaustive on a few platforms with blocked cores / smt / gpus
            pick = [x for x in combos if x[2] is None and (x[0], x[1]) in
                    (('ornl', 'frontier'), ('local', 'localhost'), ('llnl', 'lassen'), ('anl', 'polaris'),
                     ('debug', 'local'), ('ornl', 'summit'))]
            for site, r, s, c in pick:
                cpn = c.get('cores_per_node', 0) or 1
                for cores in list(range(0, 2 * cpn + 2)) + [5 * cpn - 1, 5 * cpn, 5 * cpn + 1]:
                    for gpus in (0, 1, 9, 17):
                        for smt in (None, 1, 2):
                            yield {'kind': 'size', 'site': site, 'res': r, 'schema': s, 'nodes': 0, 'cores': cores,
                                   'gpus': gpus, 'backup': 0, 'project': True, 'queue': False, 'smt': smt}

    def _factory_names(self, rng):
        txt = open(os.path.join(VERIF, 'coq', 'Gen', 'Configs.v')).read() \
            if os.path.exists(os.path.join(VERIF, 'coq', 'Gen', 'Configs.v')) else ''
        out = []
        for which in ('rm', 'lm', 'sched', 'exec'):
            m = re.search(r'Definition gen_%s_table[^\n]*:= \[([^\n]*)\]\.' % which, txt)
            names = re.findall(r'\("([^"]*)", "[^"]*"\)', m.group(1)) if m else []
            extra = ['', 'NOSUCH', 'fork', 'SRUNN', 'CONTINUOUS', 'POPEN', 'FORK', 'SLURM', 'JSRUN']
            for n in names[:]:
                if n and rng.random() < 0.5:
                    extra.append(n[:-1])
                    extra.append(n + '_X')
            seen, l = set(), []
            for n in names + extra:
                if n not in seen:
                    seen.add(n)
                    l.append(n)
            out.append((which, l))
        return out

    def _requests(self, rng, c, n, malformed=True):
        cpn = c.get('cores_per_node') if isinstance(c.get('cores_per_node'), int) else 0
        gpn = c.get('gpus_per_node') if isinstance(c.get('gpus_per_node'), int) else 0
        sa = c.get('system_architecture') if isinstance(c.get('system_architecture'), dict) else {}
        for i in range(n):
            smt = rng.choice([None, None, None, 1, 2, 4])
            eff = (cpn or 1) * (smt or (sa.get('smt') if isinstance(sa.get('smt'), int) else 1) or 1)
            bc = sa.get('blocked_cores')
            eff = max(1, eff - (len(bc) if isinstance(bc, list) else 0))
            q = {'nodes': 0, 'cores': 0, 'gpus': 0, 'backup': 0, 'project': rng.random() < 0.9,
                 'queue': rng.random() < 0.5, 'smt': smt}
            r = rng.random()
            if i == 0 or r < 0.50:                       # cores (+gpus), around multiples of the node size
                k = rng.choice([1, 1, 2, 3, 7, 16, 100])
                q['cores'] = max(1, k * eff + rng.choice([-1, 0, 0, 1, 1, rng.randint(-eff, eff)]))
                if rng.random() < 0.5:
                    g = max(1, gpn)
                    q['gpus'] = max(0, rng.choice([1, k, 2 * k, 30]) * g + rng.choice([-1, 0, 1]))
            elif r < 0.80 or not malformed:              # nodes (+backup)
                q['nodes'] = rng.choice([1, 1, 2, 3, 8, 64, 1000])
                q['backup'] = rng.choice([0, 0, 1, 2, 3])
            else:                                        # malformed
                q['nodes'] = rng.choice([0, 0, 1, -1, 2])
                q['cores'] = rng.choice([0, 0, -1, 1, eff, 3 * eff + 1])
                q['gpus'] = rng.choice([0, 0, -2, 1, 5])
                q['backup'] = rng.choice([0, 1, -1])
                q['smt'] = rng.choice([None, 0, 1, 2, -1])
            yield q

    # ------------------------------------------------------------------ impl
    def impl_setup(self):
        usr = os.path.join(os.getcwd(), 'empty_user_cfg')
        os.makedirs(usr, exist_ok=True)
        os.environ['RADICAL_CONFIG_USER_DIR'] = usr
        for v in BATCH_ENV + ['RADICAL_SMT']:
            os.environ.pop(v, None)
        os.environ['PATH'] = '%s:%s' % (os.path.dirname(sys.executable), os.environ.get('PATH', ''))
        self.rp = rp_import()
        import radical.utils as ru
        from radical.pilot.session import Session
        self.ru = ru
        self.Session = Session

        class Stub(object):
            def get_resource_config(self, resource, schema=None):
                return Session.get_resource_config(self, resource, schema)      # the real method

            _root = ''          # bulks with real staging put the sandboxes below a scratch root

            def _url(self, path):
                return ru.Url('file://localhost%s%s' % (self._root, path)) if self._root else ru.Url(path)

            def _get_endpoint_fs(self, pilot):
                return self._url('/')

            def _get_resource_sandbox(self, pilot):
                return self._url('/resource/sandbox')

            def _get_session_sandbox(self, pilot):
                return self._url('/session/sandbox/%s' % self.uid)

            def _get_pilot_sandbox(self, pilot):
                return self._url('/pilot/sandbox/%s' % pilot['uid'])

            def _get_client_sandbox(self):
                return self._url('/client/sandbox')

        s = Stub()
        s._cfg = None
        s._uid = 'session.verif'
        s.uid = 'session.verif'
        s._role = 'primary'
        for n in ('_get_profiler', '_get_reporter', '_get_logger', '_log_version'):
            setattr(s, n, mock.MagicMock())
        Session._init_cfg_from_scratch(s)         # the real loader
        s.cfg = ru.Config(cfg={})
        self.sess = s

        # concrete classes: constructors off
        from radical.pilot.agent.resource_manager.base import ResourceManager
        from radical.pilot.agent.launch_method.base import LaunchMethod
        from radical.pilot.agent.scheduler.base import AgentSchedulingComponent
        from radical.pilot.agent.executing.base import AgentExecutingComponent
        self.RM, self.LM, self.SC, self.EX = ResourceManager, LaunchMethod, AgentSchedulingComponent, \
            AgentExecutingComponent
        self._ctor_off = {}

    def _no_ctor(self, cls):
        """Replace the constructor of every class the factories can create (found lazily: the
        factories import their implementations on first use)."""
        def noop(self_, *a, **k):
            return None

        def walk(c):
            for sub in c.__subclasses__():
                if sub not in self._ctor_off:
                    self._ctor_off[sub] = True
                    sub.__init__ = noop
                walk(sub)
        walk(cls)

    def _factory(self, fn, base):
        """Run a factory with the concrete constructors disabled: class name | exception."""
        self._no_ctor(base)
        try:
            obj = fn()
        except Exception as e:
            return {'exc': exc_name(e)}
        return type(obj).__name__ if obj is not None else 'None'

    def _resolve_cfg(self, case):
        for v in BATCH_ENV:
            os.environ.pop(v, None)
        if case.get('batch'):
            for v in BATCH_ENV:
                os.environ[v] = '4711'
        try:
            return self.Session.get_resource_config(self.sess, '%s.%s' % (case['site'], case['res']),
                                                    case['schema'])
        finally:
            for v in BATCH_ENV:
                os.environ.pop(v, None)

    def _prime(self):
        """make every factory import its implementation modules once, constructors off"""
        if getattr(self, '_primed', False):
            return
        log = mock.MagicMock()
        for fn, base in ((lambda: self.RM.get_manager('FORK'), self.RM),
                         (lambda: self.LM.create('', None, None, log, log), self.LM)):
            try:
                fn()
            except Exception:
                pass
        # scheduler / executor factories import inside create(): trigger with an unknown name
        ses = mock.MagicMock()
        ses.rcfg.agent_scheduler = '__none__'
        ses.rcfg.agent_spawner = '__none__'
        ses.rcfg.launch_methods = {}
        for f in (lambda: self.SC.create({}, ses), lambda: self.EX.create({}, ses),
                  lambda: self.LM.create('__none__', None, None, log, log)):
            try:
                f()
            except Exception:
                pass
        for b in (self.RM, self.LM, self.SC, self.EX):
            self._no_ctor(b)
        self._primed = True

    def _agent_side(self, rcfg):
        ru = self.ru
        log = mock.MagicMock()
        out = {}
        out['rm'] = self._factory(lambda: self.RM.create(rcfg.get('resource_manager'), {}, rcfg, log, log), self.RM)
        # launch methods
        from radical.pilot.agent.resource_manager.base import RMInfo
        stub = mock.MagicMock()
        stub._rm_info = RMInfo()
        stub._rm_info.launch_methods = rcfg.get('launch_methods')
        stub._cfg = ru.Config(cfg={'pid': 'pilot.0000', 'reg_addr': 'tcp://x', 'resource': rcfg.get('label')})
        stub._log = log
        try:
            self.RM._prepare_launch_methods(stub)
            out['lm'] = {'order': list(stub._launch_order),
                         'launchers': [[k, type(v).__name__ if v is not None else 'None']
                                       for k, v in stub._launchers.items()],
                         'skipped': [c.args[1] for c in log.exception.call_args_list if c.args[0] == 'skip lm %s']}
        except Exception as e:
            out['lm'] = {'exc': exc_name(e)}
        out['skipped'] = [c.args[1] for c in log.exception.call_args_list if c.args[0] == 'skip lm %s']
        out['names'] = {'rm_exists': str(rcfg.get('resource_manager')), 'scheduler_exists': str(rcfg.get('agent_scheduler')),
                        'executor_exists': str(rcfg.get('agent_spawner')),
                        'agent_config_exists': str(rcfg.get('agent_config'))}
        ses = mock.MagicMock()
        ses.rcfg = rcfg
        out['sched'] = self._factory(lambda: self.SC.create({}, ses), self.SC)
        out['exec'] = self._factory(lambda: self.EX.create({}, ses), self.EX)
        return out

    def _component(self):
        from radical.pilot.pmgr.launching.base import PMGRLaunchingComponent
        ru = self.ru
        with mock.patch.object(PMGRLaunchingComponent, '__init__', return_value=None):
            c = PMGRLaunchingComponent(cfg=None, session=None)
        c._uid = 'pmgr.launching.0000'
        c._cfg = mock.Mock()
        c._log = mock.Mock()
        c._session = self.sess
        c._pmgr = 'pmgr.0'
        c._prof = ru.Config(cfg={'enabled': False})
        c._sandboxes = dict()
        c._root_dir = '/radical_pilot_src'
        c._rm_info = ru.Config(cfg={'details': None})
        c._rp_version = '0.0'
        return c

    def _prepare(self, rcfg, resource, descr, smt, loaded=None):
        """real _prepare_pilot; returns (pilot, agent config keys as loaded from the agent_*.json);
        `loaded` (a list) receives those keys even if the method raises later"""
        import radical.pilot.pmgr.launching.base as base
        ru = self.ru
        loaded = [] if loaded is None else loaded
        real_config = ru.Config

        def config(*a, **k):
            c = real_config(*a, **k)
            if k.get('category') == 'agent':
                loaded.append(list(c.keys()))
            return c
        comp = self._component()
        pilot = {'uid': 'pilot.0000', 'description': descr}
        os.environ.pop('RADICAL_SMT', None)
        if smt is not None:
            os.environ['RADICAL_SMT'] = str(smt)
        devnull = os.open(os.devnull, os.O_RDONLY)
        try:
            with mock.patch.object(real_config, 'write', return_value=None), \
                 mock.patch.object(base.tempfile, 'mkstemp', return_value=(devnull, 'rp.agent_cfg.verif')), \
                 mock.patch.object(base.ru, 'which', return_value='/usr/bin/radical-utils-env.sh'), \
                 mock.patch.object(base.ru, 'Config', side_effect=config):
                comp._prepare_pilot(resource, rcfg, pilot, {}, 'tar.tgz')
        finally:
            os.environ.pop('RADICAL_SMT', None)
            try:
                os.close(devnull)
            except OSError:
                pass
        return pilot, (loaded[0] if loaded else None)

    def _bulk(self, case):
        """real _start_pilot_bulk: one get_resource_config, the same rcfg object for every pilot, real
        _prepare_pilot (agent config really written), real _stage_in with the real local StagingHelper
        into sandboxes below a scratch root, real tarball; recording job launcher.  At submission time the
        launcher reads, per pilot, the agent_0.cfg that arrived in ITS sandbox."""
        import shutil
        import tempfile
        import threading
        from radical.pilot.utils import StagingHelper
        ru = self.ru
        comp = self._component()
        self._bulk_n = getattr(self, '_bulk_n', 0) + 1
        root = os.path.join(os.getcwd(), 'bulk.%d' % self._bulk_n)
        os.makedirs(root + '/tmp')
        os.makedirs(root + '/client/sandbox')
        launched = []

        class Launcher(object):
            def can_launch(self, rcfg, pilots):
                return True

            def launch_pilots(self, rcfg, pilots):
                for pilot in pilots:
                    try:
                        told = ru.read_json('%s/agent_0.cfg' % ru.Url(pilot['pilot_sandbox']).path)
                    except Exception as e:
                        told = {'error': '%s: %s' % (type(e).__name__, e)}
                    launched.append((pilot, told))
        log = mock.Mock()
        log.level, log.debug_level = 'DEBUG', 0
        comp._log = log
        comp._launchers = {'rec': Launcher()}
        comp._stager = StagingHelper(log)
        comp._pilots = dict()
        comp._lock = threading.RLock()
        comp._cfg = ru.Config(cfg={'base': root + '/client/sandbox'})
        comp._prof = mock.Mock()
        comp._prof.enabled = False
        comp._root_dir = os.path.join(REPO, 'src/radical/pilot')
        pilots = []
        for i, q in enumerate(case['pilots']):
            descr, _ = self._descr(dict(case, queue=False, **q))
            pilots.append({'uid': 'pilot.%04d' % i, 'type': 'pilot', 'description': descr})
        os.environ.pop('RADICAL_SMT', None)
        if case['smt'] is not None:
            os.environ['RADICAL_SMT'] = str(case['smt'])
        old_tmp = tempfile.tempdir
        tempfile.tempdir = root + '/tmp'            # mkstemp / mkdtemp / gettempdir: never /tmp
        self.sess._root = root
        try:
            comp._start_pilot_bulk('%s.%s' % (case['site'], case['res']), case['schema'], pilots)
        finally:
            self.sess._root = ''
            tempfile.tempdir = old_tmp
            os.environ.pop('RADICAL_SMT', None)
            shutil.rmtree(root, ignore_errors=True)
        if [p['uid'] for p, _ in launched] != [p['uid'] for p in pilots]:
            raise RuntimeError('launched %s of %s' % ([p['uid'] for p, _ in launched], [p['uid'] for p in pilots]))
        return launched

    @staticmethod
    def _pilot_index(x):
        """'pilot.0002' or a sandbox path '.../pilot.0002[/]' -> 2; anything else -> -1"""
        m = re.search(r'pilot\.(\d{4})/?$', str(x))
        return int(m.group(1)) if m else -1

    def _told(self, pilot, told):
        """what the agent of `pilot` reads from the agent_0.cfg in its sandbox"""
        if 'error' in told:
            return None
        I = self._int
        return {'pid': self._pilot_index(told.get('pid')), 'sandbox': self._pilot_index(told.get('pilot_sandbox')),
                'nodes': I(told.get('nodes')), 'backup': I(told.get('backup_nodes')), 'cores': I(told.get('cores')),
                'gpus': I(told.get('gpus')), 'cpn': I(told.get('cores_per_node')), 'gpn': I(told.get('gpus_per_node'))}

    def _figures(self, pilot):
        jd, ac = pilot['jd_dict'], pilot['cfg']
        I = self._int
        return {'node_count': I(jd['node_count']), 'total_cpu': I(jd['total_cpu_count']),
                'total_gpu': I(jd['total_gpu_count']), 'pph': I(jd['processes_per_host']),
                'smt': I(int(jd['environment']['RADICAL_SMT'])),
                'a_nodes': I(ac['nodes']), 'a_backup': I(ac['backup_nodes']), 'a_cores': I(ac['cores']),
                'a_gpus': I(ac['gpus']), 'a_cpn': I(ac['cores_per_node']), 'a_gpn': I(ac['gpus_per_node']),
                'p_cpu': I(pilot['resources']['cpu']), 'p_gpu': I(pilot['resources']['gpu'])}

    def _descr(self, case):
        d = {'resource': '%s.%s' % (case['site'], case['res']), 'nodes': case['nodes'], 'cores': case['cores'],
             'gpus': case['gpus'], 'backup_nodes': case['backup'], 'runtime': 10}
        if case['schema']:
            d['access_schema'] = case['schema']
        if case['project']:
            d['project'] = 'proj'
        if case['queue']:
            d['queue'] = 'q'
        pd = self.rp.PilotDescription(d)
        try:
            import copy
            copy.deepcopy(pd).verify()
            ok = True
        except Exception:
            ok = False
        return pd.as_dict(), ok

    @staticmethod
    def _int(x):
        if isinstance(x, bool) or not isinstance(x, int):
            raise NonInteger(repr(x))
        return x

    def run_impl(self, case):
        self._prime()
        k = case['kind']
        if k == 'list':
            out = []
            for site in self.sess._rcfgs:
                for r in self.sess._rcfgs[site]:
                    sch = self.sess._rcfgs[site][r].get('schemas')
                    out.append([site, r, list(sch.keys()) if isinstance(sch, dict) else []])
            return {'configs': out}
        if k == 'factory':
            log = mock.MagicMock()
            ses = mock.MagicMock()
            ses.rcfg.agent_scheduler = case['name']
            ses.rcfg.agent_spawner = case['name']
            ses.rcfg.launch_methods = {'JSRUN': {}} if case['jsrun'] else {}
            fn, base = {'rm': (lambda: self.RM.create(case['name'], {}, {}, log, log), self.RM),
                        'lm': (lambda: self.LM.create(case['name'], {}, None, log, log), self.LM),
                        'sched': (lambda: self.SC.create({}, ses), self.SC),
                        'exec': (lambda: self.EX.create({}, ses), self.EX)}[case['which']]
            return {'cls': self._factory(fn, base)}
        if k == 'resolve':
            try:
                rcfg = self._resolve_cfg(case)
            except Exception as e:
                return {'exc': exc_name(e)}
            out = self._agent_side(rcfg)
            out['jm'] = rcfg.get('job_manager_endpoint')
            out['fs'] = rcfg.get('filesystem_endpoint')
            # the agent configuration: what _prepare_pilot loads for it
            descr, _ = self._descr(dict(case, nodes=0, cores=1, gpus=0, backup=0, project=True, queue=True))
            for a in (rcfg.get('mandatory_args') or []):
                descr.setdefault(a, 'x')
                if descr[a] is None:
                    descr[a] = 'x'
            loaded = []
            try:
                import copy
                self._prepare(copy.deepcopy(rcfg), rcfg.get('label'), descr, None, loaded)
            except Exception as e:
                if not loaded:
                    out['agent'] = {'exc': exc_name(e)}
            if loaded:
                out['agent'] = loaded[0]
            elif 'agent' not in out:
                out['agent'] = {'exc': 'OtherError'}
            return out
        if k == 'bulk':
            try:
                launched = self._bulk(case)
            except Exception as e:
                return {'exc': exc_name(e), 'detail': '%s: %s' % (type(e).__name__, str(e)[:200])}
            try:
                return {'pilots': [self._figures(p) for p, _ in launched],
                        'told': [self._told(p, t) for p, t in launched],
                        'told_raw': [{k: t.get(k) for k in ('pid', 'pilot_sandbox', 'error') if k in t}
                                     for _, t in launched]}
            except NonInteger as e:
                return {'exc': 'OtherError', 'detail': 'non-integer figure %s' % e}
        if k == 'size':
            try:
                rcfg = self._resolve_cfg(dict(case, batch=False))
            except Exception as e:
                return {'exc': exc_name(e), 'pd_ok': self._descr(case)[1]}
            descr, pd_ok = self._descr(case)
            try:
                pilot, _ = self._prepare(rcfg, '%s.%s' % (case['site'], case['res']), descr, case['smt'])
            except Exception as e:
                return {'exc': exc_name(e), 'pd_ok': pd_ok}
            jd, ac = pilot['jd_dict'], pilot['cfg']
            try:
                I = self._int
                return {'pd_ok': pd_ok,
                        'node_count': I(jd['node_count']), 'total_cpu': I(jd['total_cpu_count']),
                        'total_gpu': I(jd['total_gpu_count']), 'pph': I(jd['processes_per_host']),
                        'smt': I(int(jd['environment']['RADICAL_SMT'])),
                        'a_nodes': I(ac['nodes']), 'a_backup': I(ac['backup_nodes']), 'a_cores': I(ac['cores']),
                        'a_gpus': I(ac['gpus']), 'a_cpn': I(ac['cores_per_node']), 'a_gpn': I(ac['gpus_per_node']),
                        'p_cpu': I(pilot['resources']['cpu']), 'p_gpu': I(pilot['resources']['gpu'])}
            except NonInteger as e:
                return {'exc': 'OtherError', 'pd_ok': pd_ok, 'detail': 'non-integer figure %s' % e}
        raise ValueError('unknown case kind %r' % k)

    # ------------------------------------------------------------------ coq
    @staticmethod
    def _req(case):
        present = ['resource', 'nodes', 'cores', 'gpus', 'backup_nodes', 'runtime', 'app_comm', 'memory',
                   'cleanup', 'exit_on_error', 'input_staging', 'output_staging', 'prepare_env', 'services',
                   'enable_ep']
        if case['schema']:
            present.append('access_schema')
        if case['project']:
            present.append('project')
        if case['queue']:
            present.append('queue')
        return ('{| q_nodes := %s; q_cores := %s; q_gpus := %s; q_backup := %s; q_present := %s; q_env_smt := %s |}'
                % (L.Z(case['nodes']), L.Z(case['cores']), L.Z(case['gpus']), L.Z(case['backup']),
                   strs(present), L.opt(L.Z(case['smt']) if case['smt'] is not None else None)))

    @staticmethod
    def _sized(o):
        return ('{| s_node_count := %s; s_total_cpu := %s; s_total_gpu := %s; s_pph := %s; s_smt := %s; '
                'a_nodes := %s; a_backup := %s; a_cores := %s; a_gpus := %s; a_cpn := %s; a_gpn := %s; '
                'p_cpu := %s; p_gpu := %s |}' % tuple(L.Z(o[f]) for f in (
                    'node_count', 'total_cpu', 'total_gpu', 'pph', 'smt', 'a_nodes', 'a_backup', 'a_cores',
                    'a_gpus', 'a_cpn', 'a_gpn', 'p_cpu', 'p_gpu')))

    @staticmethod
    def _told_lit(t):
        if t is None:
            return 'None'
        return ('(Some {| t_pid := %s; t_sandbox := %s; t_nodes := %s; t_backup := %s; t_cores := %s; t_gpus := %s; '
                't_cpn := %s; t_gpn := %s |})' % tuple(L.Z(t[f]) for f in (
                    'pid', 'sandbox', 'nodes', 'backup', 'cores', 'gpus', 'cpn', 'gpn')))

    def _bulk_reqs(self, case):
        return L.lst([self._req(dict(case, queue=False, **q)) for q in case['pilots']])

    def coq_row(self, case, obs):
        k = case['kind']
        if k == 'bulk':
            return '(c17_bulk_row %s %s %s %s %s)' % (
                S(case['site']), S(case['res']), schema_lit(case['schema']), self._bulk_reqs(case),
                res(obs, lambda o: L.lst([L.pair(self._sized(p), self._told_lit(t))
                                          for p, t in zip(o['pilots'], o['told'])])))
        if k == 'list':
            return '(c17_list_row %s)' % L.lst(['(%s, %s, %s)' % (S(a), S(b), strs(c)) for a, b, c in obs['configs']])
        if k == 'factory':
            return '(c17_factory_row %s %s %s %s)' % (S(case['which']), S(case['name']), L.boolean(case['jsrun']),
                                                     res(obs['cls'], S))
        if k == 'resolve':
            def lm(o):
                return '{| l_order := %s; l_launchers := %s; l_skipped := %s |}' % (
                    strs(o['order']), L.lst([L.pair(S(a), S(b)) for a, b in o['launchers']]), strs(o['skipped']))

            def ok(o):
                return ('{| r_jm := %s; r_fs := %s; r_rm := %s; r_lm := %s; r_sched := %s; r_exec := %s; '
                        'r_agent := %s |}' % (L.opt(S(o['jm']) if o['jm'] is not None else None),
                                              L.opt(S(o['fs']) if o['fs'] is not None else None),
                                              res(o['rm'], S), res(o['lm'], lm), res(o['sched'], S),
                                              res(o['exec'], S), res(o['agent'], strs)))
            return '(c17_resolve_row %s %s %s %s %s)' % (S(case['site']), S(case['res']), schema_lit(case['schema']),
                                                        L.boolean(case['batch']), res(obs, ok))
        if k == 'size':
            def ok(o):
                return ('{| s_node_count := %s; s_total_cpu := %s; s_total_gpu := %s; s_pph := %s; s_smt := %s; '
                        'a_nodes := %s; a_backup := %s; a_cores := %s; a_gpus := %s; a_cpn := %s; a_gpn := %s; '
                        'p_cpu := %s; p_gpu := %s |}' % tuple(L.Z(o[f]) for f in (
                            'node_count', 'total_cpu', 'total_gpu', 'pph', 'smt', 'a_nodes', 'a_backup', 'a_cores',
                            'a_gpus', 'a_cpn', 'a_gpn', 'p_cpu', 'p_gpu')))
            return '(c17_size_row %s %s %s %s %s %s)' % (S(case['site']), S(case['res']), schema_lit(case['schema']),
                                                        self._req(case), L.boolean(obs['pd_ok']), res(obs, ok))

    def model_show(self, case):
        k = case['kind']
        if k == 'list':
            return 'all_config_schemas T'
        if k == 'factory':
            return None
        if k == 'bulk':
            return 'launch_bulk_staged T %s %s %s %s' % (S(case['site']), S(case['res']), schema_lit(case['schema']),
                                                  self._bulk_reqs(case))
        if k == 'resolve':
            return 'resolve T %s %s %s %s' % (S(case['site']), S(case['res']), schema_lit(case['schema']),
                                              L.boolean(case['batch']))
        return '(platform %s %s %s %s, launch T %s %s %s %s)' % (
            S(case['site']), S(case['res']), schema_lit(case['schema']),
            L.opt(L.Z(case['smt']) if case['smt'] is not None else None),
            S(case['site']), S(case['res']), schema_lit(case['schema']), self._req(case))

    def nontrivial(self, case, obs):
        k = case['kind']
        if k == 'resolve':
            return 'exc' not in obs
        if k == 'size':
            return 'exc' not in obs or obs['exc'] == 'AssertionError'
        if k == 'bulk':
            return 'exc' not in obs and len(obs['pilots']) >= 2
        return k == 'list'

    def signature(self, case, obs, clause):
        k = case['kind']
        if k == 'resolve':
            # a part that does not exist is named by the part; other configuration defects by the platform
            if obs and 'exc' not in obs:
                if clause == 'launch_methods_exist':
                    return '%s:ResourceManager._prepare_launch_methods:%s' % (
                        clause, ','.join(sorted(set(obs.get('skipped', [])))) or 'order=%s' % ','.join(
                            obs['lm'].get('order', [])) if isinstance(obs.get('lm'), dict) else '')
                if clause in obs.get('names', {}):
                    return '%s:factory:%s' % (clause, obs['names'][clause])
            plat = '%s.%s' % (case['site'], case['res'])
            seen = self._sig_platforms.setdefault(clause, [])
            if plat not in seen:
                seen.append(plat)
            if seen.index(plat) >= 3:
                plat = 'further platforms'
            return '%s:Session.get_resource_config:%s' % (clause, plat)
        if k == 'bulk':
            if clause in ('staged_cfg_is_own', 'agent_told_what_job_requests'):
                return '%s:PMGRLaunchingComponent._start_pilot_bulk:agent_0.cfg staged after all pilots are prepared' % clause
            return '%s:PMGRLaunchingComponent._start_pilot_bulk:pilots of one bulk share the resource config' % clause
        if k == 'size':
            # a sizing defect belongs to the code path, not to the platform
            cond = 'nodes given' if case['nodes'] else ('cores+gpus requested' if case['gpus'] else 'cores requested')
            return '%s:PMGRLaunchingComponent._prepare_pilot:%s' % (clause, cond)
        return '%s:%s' % (clause, k)

    # greedy shrinking costs one child process + one coqc per step: at most `shrink_steps` steps per
    # violation (a case that is not one of the candidates offered last starts a new violation) and
    # `shrink_total` per run
    shrink_steps = 8
    shrink_total = 24
    _shrink_calls = 0
    _shrink_root = 0
    _shrink_last = frozenset()

    def shrink(self, case):
        if json.dumps(case, sort_keys=True) not in C17._shrink_last:
            C17._shrink_root = 0
        C17._shrink_calls += 1
        C17._shrink_root += 1
        if C17._shrink_calls > self.shrink_total or C17._shrink_root > self.shrink_steps:
            return []
        out = self._dedup(case, self._shrink(case))
        if case['kind'] == 'bulk':            # do not shrink a sized pilot into an empty request
            sized_ = lambda ps: all(p['nodes'] > 0 or p['cores'] > 0 for p in ps)
            if sized_(case['pilots']):
                out = [c for c in out if sized_(c['pilots'])]
        out = out[:40]
        C17._shrink_last = frozenset(json.dumps(c, sort_keys=True) for c in out)
        return out

    @staticmethod
    def _dedup(case, cands):
        seen = {json.dumps(case, sort_keys=True)}
        out = []
        for c in cands:
            k = json.dumps(c, sort_keys=True)
            if k not in seen:
                seen.add(k)
                out.append(c)
        return out

    def _shrink(self, case):
        zero = {'nodes': 0, 'cores': 0, 'gpus': 0, 'backup': 0}
        if case['kind'] == 'bulk':
            ps = case['pilots']
            # two identical pilots, canonical small ones first
            for q in (dict(zero, nodes=1), dict(zero, cores=1)):
                yield dict(case, pilots=[dict(q), dict(q)], smt=None)
            yield dict(case, pilots=[dict(zero, nodes=2), dict(zero, nodes=1)], smt=None)
            for i in range(len(ps)):
                yield dict(case, pilots=[dict(ps[i]), dict(ps[i])])
            if len(ps) > 2:
                for i in range(len(ps)):
                    yield dict(case, pilots=ps[:i] + ps[i + 1:])
            if case['smt'] is not None:
                yield dict(case, smt=None)
            # the same field of every pilot at once, then pilot by pilot
            for f in ('backup', 'gpus', 'cores', 'nodes'):
                for g in (lambda v: 0, lambda v: min(v, 1), lambda v: v // 2):
                    yield dict(case, pilots=[dict(p, **{f: g(p[f]) if p[f] > 0 else p[f]}) for p in ps])
            for i, p in enumerate(ps):
                for f in ('backup', 'gpus', 'cores', 'nodes'):
                    v = p[f]
                    for w in (0, 1, v // 2):
                        if 0 <= w < v:
                            yield dict(case, pilots=ps[:i] + [dict(p, **{f: w})] + ps[i + 1:])
            return
        if case['kind'] != 'size':
            return
        for q in (dict(zero, nodes=1), dict(zero, cores=1)):
            yield dict(case, smt=None, queue=False, **q)
        for f in ('backup', 'gpus', 'cores', 'nodes'):
            v = case[f]
            for w in [0, 1, v // 2, (3 * v) // 4] + ([v - 1] if v <= 16 else []):
                if 0 <= w < v:
                    yield dict(case, **{f: w})
        if case['smt'] is not None:
            yield dict(case, smt=None)
        if case['queue']:
            yield dict(case, queue=False)

    def describe(self, case):
        return case

    def distribution(self, results):
        kinds, excs, req = {}, {}, {'nodes': 0, 'cores': 0, 'cores+gpus': 0, 'backup>0': 0, 'smt_env': 0, 'pd_invalid': 0}
        combos = set()
        for r in results:
            c = r['case']
            kinds[c['kind']] = kinds.get(c['kind'], 0) + 1
            if r['obs'] and isinstance(r['obs'], dict) and 'exc' in r['obs']:
                key = '%s:%s' % (c['kind'], r['obs']['exc'])
                excs[key] = excs.get(key, 0) + 1
            if c['kind'] in ('resolve', 'size', 'bulk'):
                combos.add((c['site'], c['res'], c['schema']))
            if c['kind'] == 'bulk':
                req['bulk_pilots'] = req.get('bulk_pilots', 0) + len(c['pilots'])
            if c['kind'] == 'size':
                if c['nodes']: req['nodes'] += 1
                elif c['gpus']: req['cores+gpus'] += 1
                else: req['cores'] += 1
                if c['backup'] > 0: req['backup>0'] += 1
                if c['smt'] is not None: req['smt_env'] += 1
                if r['obs'] and not r['obs'].get('pd_ok', True): req['pd_invalid'] += 1
        return dict(kinds=kinds, exceptions=excs, requests=req, config_schema_combinations=len(combos))


class NonInteger(Exception):
    pass


PROP = C17()
