"""C20: every way a raptor request can END, each followed by a probe on the same
persistent worker.

A case is a sequence of requests [mode, environment, payload actions, fin, ending]
run on ONE worker, either by calling the real Worker._dispatch_* methods directly
('direct') or through the real per-task loop of a persistent rank,
MPIWorkerRank.run (raptor/worker_mpi.py; 'rank'; the zmq getter/putter are fakes
that hand the tasks over one by one).  After every request the harness records the
state the NEXT request would find: os.environ (view over the key universe),
the process-level environment (libc getenv), whether os.environ still is the
write-through mapping, sys.stdout/sys.stderr identity, the working directory,
Worker._task_env, and that no RP_TASK_ID is left behind.  The last request of a
generated sequence is a probe that echoes every key of the universe."""
import asyncio
import ctypes
import functools
import os
import sys
from unittest import mock

from . import coqlit as L

NKEYS = 6
ENDINGS = {
    'func': ['normal', 'empty_name', 'missing_key', 'unresolvable', 'undeserializable', 'bad_env', 'close_stdout',
             'exit', 'chdir'],
    'meth': ['normal', 'empty_name', 'missing_key', 'unresolvable', 'bad_env', 'close_stdout', 'chdir'],
    'pytask': ['normal', 'bad_args', 'comm_inject', 'bad_env', 'chdir'],
    'eval': ['normal', 'empty_name', 'missing_key', 'syntax', 'bad_env', 'close_stdout', 'exit', 'chdir'],
    'exec': ['normal', 'missing_key', 'syntax', 'pre_exec', 'bad_env', 'close_stdout', 'exit', 'chdir'],
    'proc': ['normal', 'missing_key', 'bad_args', 'bad_env'],
    'shell': ['normal', 'missing_key', 'bad_env'],
}
COQ_END = dict(normal='ENormal', empty_name='EEmptyName', missing_key='EMissingKey', unresolvable='EUnresolvable',
               undeserializable='EUnresolvable', bad_args='EBadArgs', comm_inject='ECommInject', syntax='ESyntax',
               pre_exec='EPreExec', bad_env='EBadEnv', close_stdout='ECloseStdout', exit='EExit', chdir='EChdir')
EXC_CODE = dict(AssertionError=101, KeyError=102, ValueError=103, RuntimeError=104, SystemExit=198)
BAD_ENV = [('C20=BAD', '1'), ('', '1'), ('C20_NUL', 'a\0b')]


def key(k):
    return 'C20_K%d' % k


class StopRank(BaseException):
    pass


def x_payload(acts, fin, ending):
    """python payload with the extra endings"""
    from .c20 import c20_payload
    if ending in ('close_stdout', 'exit', 'chdir'):
        c20_payload(acts, ['return', 0])
        if ending == 'close_stdout':
            sys.stdout.close()
            return 0
        if ending == 'exit':
            sys.exit(3)
        os.chdir('/')
        return c20_payload([], fin)
    return c20_payload(acts, fin)


def extra_src(ending, mode):
    if ending == 'close_stdout':
        return 'sys.stdout.close()'
    if ending == 'exit':
        return 'sys.exit(3)'
    if ending == 'chdir':
        return 'os.chdir("/")'
    return None


def build(w, i, req, via_rank, rp):
    from .c20 import py_expr, py_code, sh_script
    from radical.pilot.pytask import PythonTask
    mode, denv, acts, fin, ending = req
    d = {}
    if denv is not None:
        d['environment'] = {key(k): str(v) for k, v in denv}
    if ending == 'bad_env':
        d.setdefault('environment', {})
        bad = [b for b in BAD_ENV if b[0] or mode not in ('proc', 'shell')]   # Popen accepts an empty name
        k, v = bad[i % len(bad)]
        d['environment'][k] = v
    t = {'uid': 'req.%06d' % i, 'description': d}
    xs = extra_src(ending, mode)
    if mode in ('func', 'meth'):
        name = 'function' if mode == 'func' else 'method'
        d.update(args=[acts, fin, ending], kwargs={})
        d[name] = 'c20_x_payload'
        if ending == 'empty_name':
            d[name] = ''
        elif ending == 'missing_key':
            del d[name]
        elif ending == 'unresolvable':
            d[name] = 'c20_no_such_callable'
        elif ending == 'undeserializable':
            d[name] = 'gASV'
        d['mode'] = rp.TASK_FUNCTION if mode == 'func' else rp.TASK_METHOD
    elif mode == 'pytask':
        d.update(function=PythonTask(functools.partial(x_payload, acts, fin, ending), (), {}), args=[], kwargs={})
        if ending == 'bad_args':
            d['args'] = [1]
        if ending == 'comm_inject':
            t['mpi_comm'] = 'COMM'
        d['mode'] = rp.TASK_FUNCTION
    elif mode == 'eval':
        code = py_expr(acts, fin)
        if xs:
            code = '(%s, %s, %s)[-1]' % (py_expr(acts, ['return', 0]), xs, py_expr([], fin))
        code = {'empty_name': '', 'syntax': '1 +'}.get(ending, code)
        d['code'] = code
        if ending == 'missing_key':
            del d['code']
        d['mode'] = rp.TASK_EVAL
    elif mode == 'exec':
        code = py_code(acts, fin)
        if xs:
            lines = code.split('\n')
            code = '\n'.join(lines[:-1] + [xs] + lines[-1:])
        code = {'syntax': 'return ('}.get(ending, code)
        d['code'] = code
        if ending == 'pre_exec':
            d['pre_exec'] = ['import c20_no_such_module']
        if ending == 'missing_key':
            del d['code']
        d['mode'] = rp.TASK_EXEC
    elif mode == 'proc':
        d.update(executable='/bin/sh', arguments=['-c', sh_script(acts, fin)])
        if ending == 'missing_key':
            del d['executable']
        if ending == 'bad_args':
            d['arguments'] = [1]
        d['mode'] = rp.TASK_PROC
    else:
        d['command'] = sh_script(acts, fin)
        if ending == 'missing_key':
            del d['command']
        d['mode'] = rp.TASK_SHELL
    if via_rank:
        d['ranks'] = 1
        t['ranks'] = [0]
        t['task_sandbox_path'] = os.path.join(os.getcwd(), 'tsbox')
        t['name'] = 'n'
    return t


def toks(s):
    try:
        return [int(x) for x in s.split()]
    except Exception:
        return [-999]


def canon(mode, r, raised):
    """(out, err, ret, val, exc) or an escaped exception -> canonical result"""
    if raised is not None:
        return {'out': None, 'err': [], 'fail': EXC_CODE.get(raised, 199), 'ret': -1, 'val': None, 'exc': True}
    o, e, ret, val, exc = r
    if isinstance(o, bytes):
        o = o.decode()
    if isinstance(e, bytes):
        e = e.decode()
    e = e or ''
    fail = None
    word = {'func': 'call', 'meth': 'call', 'pytask': 'call', 'eval': 'eval', 'exec': 'exec'}.get(mode)
    if word:
        mark = '\n%s failed: ' % word
        if mark in e:
            e, msg = e.split(mark, 1)
            fail = int(msg[1:]) if msg[:1] == 'm' and msg[1:].isdigit() else -2
        elif e.startswith('%s failed: ' % word):
            e, fail = '', -2
    elif o is None:
        w2 = 'exec' if mode == 'proc' else 'shell'
        fail = 0 if e == "%s failed: 'environment'" % w2 else -2 if e.startswith('%s failed: ' % w2) else -998
        e = ''
    return {'out': None if o is None else toks(o), 'err': toks(e), 'fail': fail,
            'ret': ret if isinstance(ret, int) else -999,
            'val': val if (val is None or isinstance(val, int)) else -999,
            'exc': bool(exc) and exc[0] is not None}


class Runner:
    def __init__(self, prop):
        self.prop = prop

    def state(self, w, cwd0, tsbox, io):
        py = [int(os.environ[key(k)]) if key(k) in os.environ else None for k in range(NKEYS)]
        pr = []
        for k in range(NKEYS):
            v = self.prop.libc.getenv(key(k).encode())
            pr.append(None if v is None else int(v))
        tv = []
        for k in range(NKEYS):
            v = w._task_env.get(key(k))
            tv.append(int(v) if isinstance(v, str) and v.isdigit() else None if v is None else -999)
        cwd = os.getcwd()
        extra = ('RP_TASK_ID' not in os.environ and self.prop.libc.getenv(b'RP_TASK_ID') is None
                 and not [k for k in os.environ if k.startswith('C20') and not k.startswith('C20_K')]
                 and sorted(w._task_env) == sorted(self.tenv_keys))
        return {'py': py, 'pr': pr, 'bound': isinstance(os.environ, os._Environ),
                'stdio': sys.stdout is io[0] and sys.stderr is io[1],
                'cwd': 0 if cwd == cwd0 else 1 if cwd == tsbox else 2, 'tenv': tv, 'extra': extra}

    def run(self, case):
        import radical.pilot as rp
        from radical.pilot.raptor.worker_default import DefaultWorker
        prop = self.prop
        via_rank = case['via'] == 'rank'
        w = DefaultWorker.__new__(DefaultWorker)
        w._uid = 'worker.0000'
        w._log, w._prof = mock.MagicMock(), mock.MagicMock()
        w._task_env = {'PATH': '/usr/bin:/bin'}
        for k, v in case['tenv']:
            w._task_env[key(k)] = str(v)
        self.tenv_keys = list(w._task_env)
        w.c20_x_payload = x_payload
        w._modes = {}
        w.register_mode(rp.TASK_FUNCTION, w._dispatch_func)
        w.register_mode(rp.TASK_METHOD, w._dispatch_meth)
        w.register_mode(rp.TASK_EVAL, w._dispatch_eval)
        w.register_mode(rp.TASK_EXEC, w._dispatch_exec)
        w.register_mode(rp.TASK_PROC, w._dispatch_proc)
        w.register_mode(rp.TASK_SHELL, w._dispatch_shell)
        w.stop = lambda *a, **k: None
        prop._reset_env(case['env0'])
        cwd0 = os.getcwd()
        tsbox = os.path.join(cwd0, 'tsbox')
        io = (sys.stdout, sys.stderr)
        tasks = [build(w, i, req, via_rank, rp) for i, req in enumerate(case['reqs'])]
        out = []
        try:
            if not via_rank:
                for req, t in zip(case['reqs'], tasks):
                    mode = req[0]
                    r, raised = None, None
                    try:
                        if mode in ('func', 'pytask'):
                            r = asyncio.run(w._dispatch_func(t))
                        elif mode == 'meth':
                            r = asyncio.run(w._dispatch_meth(t))
                        else:
                            r = getattr(w, '_dispatch_' + mode)(t)
                    except BaseException as e:      # noqa
                        raised = type(e).__name__
                    o = {'res': canon(mode, r, raised)}
                    o.update(self.state(w, cwd0, tsbox, io))
                    out.append(o)
                    sys.stdout, sys.stderr = io
            else:
                out = self.run_rank(w, case, tasks, cwd0, tsbox, io)
        finally:
            sys.stdout, sys.stderr = io
            os.chdir(cwd0)
            prop._reset_env([])
            for k in [k for k in list(os.environ) if k.startswith('C20')]:
                os.environ.pop(k, None)
        return {'per_req': out}

    def run_rank(self, w, case, tasks, cwd0, tsbox, io):
        import radical.utils as ru
        import radical.pilot.raptor.worker_mpi as wm
        rp_keys = ['RP_TASK_SANDBOX', 'RP_PILOT_ID', 'RP_SESSION_ID', 'RP_RESOURCE', 'RP_RESOURCE_SANDBOX',
                   'RP_SESSION_SANDBOX', 'RP_PILOT_SANDBOX', 'RP_GTOD', 'RP_PROF', 'RP_PROF_TGT']
        for k in rp_keys:
            os.environ[k] = cwd0 if k == 'RP_TASK_SANDBOX' else 'x'
        os.environ.pop('RP_TASK_ID', None)
        pending = list(tasks)
        results, states = [], []
        runner = self

        class Getter:
            def __init__(self, *a, **k):
                pass

            def get_nowait(self, qname=None, timeout=None):
                if results:
                    states.append(runner.state(w, cwd0, tsbox, io))
                if not pending:
                    raise StopRank()
                return [pending.pop(0)]

        class Putter:
            def __init__(self, *a, **k):
                pass

            def put(self, task):
                results.append(task)
        r = wm.MPIWorkerRank.__new__(wm.MPIWorkerRank)
        r._rank_task_q_get = r._rank_result_q_put = 'x'
        r._world = r._group = None
        r._rank, r._ranks = 0, 1
        r._event = mock.MagicMock()
        r._log, r._prof = mock.MagicMock(), mock.MagicMock()
        r._base = w
        r._sbox = cwd0
        try:
            with mock.patch.object(ru.zmq, 'Getter', Getter), mock.patch.object(ru.zmq, 'Putter', Putter):
                r.run()
        finally:
            for k in rp_keys:
                os.environ.pop(k, None)
        out = []
        for i, (req, t) in enumerate(zip(case['reqs'], results)):
            if t.get('exit_code') == -1 and t.get('stdout') == '':
                name = str(t.get('exception')).split('(', 1)[0]
                res = canon(req[0], None, name)
            else:
                res = canon(req[0], (t.get('stdout'), t.get('stderr'), t.get('exit_code'), t.get('return_value'),
                                     (t.get('exception'), t.get('exception_detail'))), None)
            o = {'res': res}
            o.update(states[i] if i < len(states) else {'py': [], 'pr': [], 'bound': False, 'stdio': False,
                                                        'cwd': -1, 'tenv': [], 'extra': False})
            out.append(o)
        while len(out) < len(case['reqs']):
            out.append({'res': canon('eval', None, 'Lost'), 'py': [], 'pr': [], 'bound': False, 'stdio': False,
                        'cwd': -1, 'tenv': [], 'extra': False})
        return out


# ------------------------------------------------------------------------------
def gen_cases(rng, tier):
    quick = tier == 'quick'

    def env(p):
        return [[k, rng.randint(0, 99)] for k in range(NKEYS) if rng.random() < p]

    def acts():
        out = []
        for _ in range(rng.randint(0, 3)):
            r = rng.random()
            if r < 0.3:
                out.append(['print', rng.randint(0, 99)])
            elif r < 0.6:
                out.append(['set', rng.randint(0, NKEYS - 1), rng.randint(0, 99)])
            elif r < 0.75:
                out.append(['del', rng.randint(0, NKEYS - 1)])
            else:
                out.append(['echo', rng.randint(0, NKEYS - 1)])
        return out
    probe_acts = [['echo', k] for k in range(NKEYS)]
    # every kind x ending, directly and on a rank, followed by a probe of another kind
    for via in ('direct', 'rank'):
        for mode, ends in ENDINGS.items():
            for ending in ends:
                if via == 'rank' and ending == 'exit':
                    continue                  # SystemExit ends the rank's work thread
                for rep in range(1 if quick else 4):
                    denv = env(0.5) or [[1, 7]]
                    fin = ['return', rng.randint(0, 99)] if rng.random() < 0.7 else ['raise', rng.randint(1, 99)]
                    pmode = rng.choice(['eval', 'exec', 'func', 'shell'])
                    yield {'kind': 'endseq', 'via': via, 'tenv': env(0.3), 'env0': env(0.4),
                           'reqs': [[mode, denv, acts(), fin, ending],
                                    [pmode, [], probe_acts, ['return', 1], 'normal']]}
    for _ in range(60 if quick else 1500):
        via = rng.choice(['direct', 'rank'])
        reqs = []
        for _r in range(rng.randint(1, 3)):
            mode = rng.choice(list(ENDINGS))
            ending = rng.choice(ENDINGS[mode]) if rng.random() < 0.6 else 'normal'
            if via == 'rank' and ending == 'exit':
                ending = 'normal'
            fin = ['return', rng.randint(0, 99)] if rng.random() < 0.7 else ['raise', rng.randint(1, 99)]
            reqs.append([mode, env(0.4), acts(), fin, ending])
        reqs.append([rng.choice(['eval', 'exec', 'func', 'proc']), [], probe_acts, ['return', 1], 'normal'])
        yield {'kind': 'endseq', 'via': via, 'tenv': env(0.3), 'env0': env(0.4), 'reqs': reqs}


# ------------------------------------------------------------------------------
def xreq_lit(r):
    from .c20 import dreq_lit
    mode, denv, acts, fin, ending = r
    return '(%s, %s)' % (dreq_lit([mode, denv, acts, fin]), COQ_END[ending])


def args(case):
    from .c20 import envlit
    return '%s %s %s %s' % (L.boolean(case['via'] == 'rank'), envlit(case['tenv']), envlit(case['env0']),
                            L.lst([xreq_lit(r) for r in case['reqs']]))


def coq_row(case, obs):
    from .c20 import dres_lit, view_lit
    ob = L.lst(['(%s, %s, %s, %s, %s, %s, %s, %s)' % (
        dres_lit(o['res']), view_lit(o['py']), view_lit(o['pr']), L.boolean(o['bound']), L.boolean(o['stdio']),
        L.Z(o['cwd']), view_lit(o['tenv']), L.boolean(o['extra'])) for o in obs['per_req']])
    return '(c20_endseq_row %s %s)' % (args(case), ob)


def model_show(case):
    from .c20 import envlit
    return ('map (fun m : dres * rstate => (fst m, view (py_env (r_w (snd m))), view (pr_env (r_w (snd m))), '
            'r_cwd (snd m))) (xrun %s (mkR (mkWorld %s %s true) 0 %s true) %s)' % (
                L.boolean(case['via'] == 'rank'), envlit(case['env0']), envlit(case['env0']), envlit(case['tenv']),
                L.lst([xreq_lit(r) for r in case['reqs']])))


def shrink(case):
    rs = case['reqs']
    for i in range(len(rs) - 1):
        if len(rs) > 2:
            yield dict(case, reqs=rs[:i] + rs[i + 1:])
    for i, r in enumerate(rs[:-1]):
        for j in range(len(r[2])):
            yield dict(case, reqs=rs[:i] + [[r[0], r[1], r[2][:j] + r[2][j + 1:], r[3], r[4]]] + rs[i + 1:])
        if r[1] and len(r[1]) > 1:
            yield dict(case, reqs=rs[:i] + [[r[0], r[1][:1], r[2], r[3], r[4]]] + rs[i + 1:])
    if case['env0']:
        yield dict(case, env0=[])
    if case['tenv']:
        yield dict(case, tenv=[])
