"""C20 -- raptor workers and masters account for every request.

Implementation under test (real code, objects built without __init__):
  DefaultWorker._alloc/_dealloc/_request_cb/_result_cb (fake mp.Process, the
  result-watcher thread is played by the harness inside time.sleep),
  Master._result_cb/_request_cb/submit_tasks/_submit_tasks,
  Worker._dispatch_func/_meth/_eval/_exec/_proc/_shell run in-process on
  payloads that print, edit os.environ, return and raise (python level and
  process level environment observed),
  AgentSchedulingComponent._schedule_incoming (raptor branch) and control_cb
  (register/unregister_raptor_queue, cancel_tasks),
  DefaultWorker._dispatch (the real mp.Process wrapper, forked) on payloads
  that return, raise, exit, get killed or time out."""
import asyncio
import copy
import ctypes
import io
import itertools
import os
import queue
import sys
import threading
from collections import defaultdict
from unittest import mock

from . import coqlit as L
from . import c20race
from . import c20lin
from . import c20end
from .core import Prop, rp_import

NKEYS = 6
MODES = ['executable', 'func', 'meth', 'eval', 'exec', 'proc', 'shell', 'other']
COQ_MODE = dict(executable='MExecutable', func='MFunc', meth='MMeth', eval='MEval', exec='MExec',
                proc='MProc', shell='MShell', other='MOtherMode')
DMODE = dict(func='DFunc', meth='DFunc', pytask='DFunc', eval='DEval', exec='DExec', proc='DProc', shell='DShell')
TGT = dict(DONE='TDone', FAILED='TFailed', CANCELED='TCanceled')
ERRS = ('AssertionError', 'KeyError', 'IndexError', 'ValueError')


def errname(n):
    return n if n in ERRS else 'OtherError'


def key(k):
    return 'C20_K%d' % k


class Deadlock(BaseException):
    """the request thread would spin forever in `while not self._alloc(task)`"""


# ------------------------------------------------------------------------------
# python payload used by function tasks (module level: dill serialises by reference)
#
def c20_payload(acts, fin):
    for a in acts:
        if a[0] == 'print':
            print(a[1])
        elif a[0] == 'err':
            print(a[1], file=sys.stderr)
        elif a[0] == 'set':
            os.environ[key(a[1])] = str(a[2])
        elif a[0] == 'del':
            os.environ.pop(key(a[1]), None)
        elif a[0] == 'echo':
            print(os.environ.get(key(a[1]), '-1'))
    if fin[0] == 'return':
        return fin[1]
    raise ValueError('m%d' % fin[1])


def py_expr(acts, fin):
    """the same payload as one python expression (task.eval)"""
    parts = []
    for a in acts:
        if a[0] == 'print':
            parts.append('print(%d)' % a[1])
        elif a[0] == 'err':
            parts.append('print(%d, file=sys.stderr)' % a[1])
        elif a[0] == 'set':
            parts.append('os.environ.__setitem__(%r, %r)' % (key(a[1]), str(a[2])))
        elif a[0] == 'del':
            parts.append('os.environ.pop(%r, None)' % key(a[1]))
        elif a[0] == 'echo':
            parts.append('print(os.environ.get(%r, "-1"))' % key(a[1]))
    if fin[0] == 'return':
        parts.append('%d' % fin[1])
    else:
        parts.append('(_ for _ in ()).throw(ValueError("m%d"))' % fin[1])
    return '(' + ', '.join(parts) + ',)[-1]'


def py_code(acts, fin):
    """the same payload as a code block (task.exec)"""
    lines = ['import os, sys']
    for a in acts:
        if a[0] == 'print':
            lines.append('print(%d)' % a[1])
        elif a[0] == 'err':
            lines.append('print(%d, file=sys.stderr)' % a[1])
        elif a[0] == 'set':
            lines.append('os.environ[%r] = %r' % (key(a[1]), str(a[2])))
        elif a[0] == 'del':
            lines.append('os.environ.pop(%r, None)' % key(a[1]))
        elif a[0] == 'echo':
            lines.append('print(os.environ.get(%r, "-1"))' % key(a[1]))
    if fin[0] == 'return':
        lines.append('return %d' % fin[1])
    else:
        lines.append('raise ValueError("m%d")' % fin[1])
    return '\n'.join(lines)


def sh_script(acts, fin):
    parts = []
    for a in acts:
        if a[0] == 'print':
            parts.append('echo %d' % a[1])
        elif a[0] == 'err':
            parts.append('echo %d >&2' % a[1])
        elif a[0] == 'set':
            parts.append('export %s=%d' % (key(a[1]), a[2]))
        elif a[0] == 'del':
            parts.append('unset %s' % key(a[1]))
        elif a[0] == 'echo':
            parts.append('echo ${%s--1}' % key(a[1]))
    parts.append('exit %d' % (0 if fin[0] == 'return' else fin[1]))
    return '; '.join(parts)


# ------------------------------------------------------------------------------
# literals
#
def zopt(x):
    return L.opt(None if x is None else L.Z(x))


def bm(l):
    return L.lst([L.boolean(bool(x)) for x in l])


def envlit(e):
    return L.lst([L.pair(L.Z(k), L.Z(v)) for k, v in e])


def pick_lit(p):
    return '(%s, %s, %s)' % (L.Z(p[0]), L.Z(p[1]), L.boolean(p[2]))


def wop_lit(o):
    if o[0] == 'req':
        reqs = L.lst(['(mkReq %s %s %s %s)' % (L.Z(u), zopt(c), zopt(g), L.boolean(sf)) for u, c, g, sf in o[1]])
        return '(OReq %s %s)' % (reqs, L.lst([pick_lit(p) for p in o[2]]))
    if o[0] == 'fin':
        return '(OFin %s)' % pick_lit(o[1])
    return '(OStale %s)' % L.Z(o[1])


def wev_lit(e):
    if e[0] == 'start':
        return '(EvStart %s %s %s %s %s %s)' % (L.Z(e[1]), L.Z(e[2]), L.zlist(e[3]), L.zlist(e[4]), bm(e[5]), bm(e[6]))
    if e[0] == 'result':
        return '(EvResult %s %s %s %s %s)' % (L.Z(e[1]), zopt(e[2]), L.boolean(e[3]), bm(e[4]), bm(e[5]))
    if e[0] == 'raise':
        return '(EvRaise %s %s)' % (L.Z(e[1]), errname(e[2]))
    return 'EvStuck'


def mev_lit(e):
    if e[0] == 'insert':
        return '(MInsert %s)' % L.Z(e[1])
    if e[0] == 'advance':
        return '(MAdvance %s %s %s %s)' % (L.zlist(e[1]), e[2], L.boolean(e[3]), L.boolean(e[4]))
    if e[0] == 'reqput':
        return '(MReqPut %s)' % L.zlist(e[1])
    return '(MRaise %s)' % errname(e[1])


def itask_lit(t):
    u, has, m = t
    return '(%s, %s, %s)' % (L.Z(u), L.boolean(has), 'None' if m is None else '(Some %s)' % COQ_MODE[m])


def act_lit(a):
    return {'print': lambda: '(APrint %s)' % L.Z(a[1]), 'err': lambda: '(AErr %s)' % L.Z(a[1]),
            'set': lambda: '(ASet %s %s)' % (L.Z(a[1]), L.Z(a[2])), 'del': lambda: '(ADel %s)' % L.Z(a[1]),
            'echo': lambda: '(AEcho %s)' % L.Z(a[1])}[a[0]]()


def dreq_lit(r):
    mode, denv, acts, fin = r
    f = '(FReturn %s)' % L.Z(fin[1]) if fin[0] == 'return' else '(FRaise %s)' % L.Z(fin[1])
    return '(%s, %s, mkPayload %s %s)' % (DMODE[mode], 'None' if denv is None else '(Some %s)' % envlit(denv),
                                          L.lst([act_lit(a) for a in acts]), f)


def view_lit(v):
    return L.lst([zopt(x) for x in v])


def dres_lit(r):
    return '(mkRes %s %s %s %s %s %s)' % ('None' if r['out'] is None else '(Some %s)' % L.zlist(r['out']),
                                          L.zlist(r['err']), zopt(r['fail']), L.Z(r['ret']), zopt(r['val']),
                                          L.boolean(r['exc']))


def sop_lit(o):
    if o[0] == 'incoming':
        return '(SIncoming %s)' % L.lst(['(%s, %s, %s, %s)' % (L.Z(u), zopt(r), L.boolean(w), L.boolean(s))
                                         for u, r, w, s in o[1]])
    if o[0] == 'register':
        return '(SRegister %s)' % L.Z(o[1])
    if o[0] == 'unregister':
        return '(SUnregister %s)' % L.Z(o[1])
    return '(SCancelOp %s)' % L.zlist(o[1])


def sev_lit(e):
    if e[0] == 'put':
        return '(SPut %s %s)' % (L.Z(e[1]), L.zlist(e[2]))
    if e[0] == 'local':
        return '(SLocal %s)' % L.zlist(e[1])
    if e[0] == 'fail':
        return '(SFail %s)' % L.Z(e[1])
    return '(SCancel %s)' % L.zlist(e[1])


def toks(s):
    try:
        return [int(x) for x in s.split()]
    except Exception:
        return [-999]


def uid_of(s):
    try:
        return int(str(s).rsplit('.', 1)[1])
    except Exception:
        return -999


class C20(Prop):
    id = 'C20'
    module = 'c20'
    title = 'Raptor workers and masters account for every request'
    props_files = ['Props/C20.v']
    extra_targets = ['Raptor/Oracle.vo', 'Raptor/RaceOracle.vo', 'Raptor/Lin.vo', 'Raptor/EndingsOracle.vo']
    model_targets = ['Raptor/Oracle.vo', 'Raptor/RaceOracle.vo', 'Raptor/Lin.vo', 'Raptor/EndingsOracle.vo']
    translators = []
    header = 'From RP Require Import Raptor.Model Raptor.Oracle Raptor.Race Raptor.RaceOracle Raptor.Lin Raptor.Endings Raptor.EndingsOracle.'
    clauses = ['disjoint', 'accounting', 'quiescent_free', 'each_once', 'target_state', 'routing',
               'forwarding', 'truthful', 'env_python', 'env_process', 'stdio', 'threads_alive',
               'reported_only_after_process_gone', 'no_two_live_processes_on_a_core']
    corr_name = ('Raptor.Model (wrun/master_result/master_request/submit_tasks/drun/srun) vs DefaultWorker._request_cb/'
                 '_result_cb/_alloc/_dealloc, Master._result_cb/_request_cb/_submit_tasks, Worker._dispatch_*, '
                 'AgentSchedulingComponent._schedule_incoming/control_cb')
    rule = ('corpus, then sequences [request kind x ending] ... [probe] on one persistent worker, every kind x ending both through the real '
            'Worker._dispatch_* directly and through the real MPIWorkerRank.run loop, plus random sequences; then two-thread cases (one real thread held after its k-th line inside the bookkeeping code, the other run to '
            'completion or until blocked: worker intake vs result callback vs intake vs own completion at every hold point of fixed pairs '
            'and at sampled hold points of random pairs; master result callbacks from two threads, _run_task vs its result, worker table, '
            'heartbeat pass vs registration/submission), then schedules of the dispatcher/task-process protocol of the real DefaultWorker._dispatch (the task '
            'process makes j steps, the timeout expires, the dispatcher makes k steps, the task process makes m steps, for all '
            'j,k,m and every payload ending; random schedules; thorough: every sequence of <= 8 choices), each followed by the real '
            '_result_watcher on the queued results and a later request; then the 16 ways a payload process can end under the real DefaultWorker._dispatch (return, raise, '
            'sys.exit/os._exit with code 0/3, SIGKILL, time-out; exec and eval), then seed-determined streams: worker request/completion streams (batches of requests with core/GPU '
            'demands mostly within the worker size, completions/failures/time-outs in arbitrary order, failing process '
            'starts, stale results, completions arriving while a request waits for resources; every result piped through '
            'the real Master._result_cb), master result batches (exit codes incl. None/absent, preset target states, '
            'task-service entries), master request/submit batches over all task modes, dispatch sequences over '
            'func/meth/PythonTask/eval/exec/proc/shell payloads that print, edit os.environ, return and raise, and '
            'scheduler histories of incoming/register/unregister/cancel; thorough adds exhaustive request/completion '
            'orders on a 3-core x 2-GPU worker.  non-trivial = worker stream with >= 2 requests running at once, '
            'dispatch sequence with >= 2 requests one of which edits the environment, master batch with both DONE and '
            'FAILED outcomes or both routes, scheduler history with a forward and a backlog event, protocol schedule in which '
            'both parties move after the timeout expired')
    trusted = [
        'correspondence harness harness/c20.py: real DefaultWorker/Master/Worker/AgentSchedulingComponent methods on '
        'objects built without __init__; mp.Process replaced by a recorder whose start() can fail, the result watcher '
        'thread played deterministically inside time.sleep, zmq putters/advance/publish replaced by recorders; compared '
        'inside Coq by vm_compute with the model',
        'process-level environment observed with libc getenv (ctypes) in the worker process',
        'DefaultWorker._dispatch is run for real in a forked process (mp.Process, mp.Queue) on 16 payload endings',
        'harness/c20end.py: real Worker._dispatch_* and real MPIWorkerRank.run (zmq getter/putter replaced by hand-over fakes, no MPI: '
        'ranks = 1); state probe = os.environ, libc getenv, binding, cwd, stdio identity, _task_env',
        'harness/c20lin.py + harness/interleave.py: two real threads, one held by a sys.settrace line tracer; statement-level '
        'granularity, atomicity of single dict/list operations under the GIL trusted',
        'harness/c20race.py: the real _dispatch/_worker_proc on fake Lock/Event/Process/queue objects that park before every '
        'synchronisation operation (one model step each) under a step scheduler; atomicity of the real mp primitives trusted',
        'modelled, not verified: the time-out race of _dispatch (duplicate report), result queue transport between '
        'processes, MPI worker, heartbeats/registration, profiling/logging, sandbox creation',
    ]
    assumptions = ['SIGKILL (worker_proc.kill()) always ends the task process', 'request uids in one stream are distinct', 'payloads change the environment through os.environ '
                   '(not os.putenv) and do not rebind sys.stdout themselves',
                   'results reach _result_cb at most once per started process (duplicates are modelled as stale pids)']
    widen_cases = 1500

    # ------------------------------------------------------------------ cases
    def gen_worker(self, rng, big=False):
        nc = rng.randint(1, 4)
        ng = rng.randint(0, 3)
        oob = rng.random() < 0.05
        ops, uid = [], 0
        for _ in range(rng.randint(2, 14 if big else 9)):
            r = rng.random()
            if r < 0.5:
                reqs = []
                for _k in range(rng.choice([1, 1, 1, 2, 2, 3])):
                    uid += 1
                    c = None if rng.random() < 0.15 else rng.randint(1, nc)
                    g = None if rng.random() < 0.3 else rng.randint(0, ng)
                    if oob and rng.random() < 0.3:
                        c, g = rng.choice([(nc + 1, 0), (0, 0), (1, ng + 1), (1, -1), (-1, None)])
                    reqs.append([uid, c, g, rng.random() < 0.08])
                picks = [[rng.randint(0, 5), rng.choice([0, 0, 1, 1, 2, -9]), rng.random() < 0.5]
                         for _p in range(rng.randint(0, 3))]
                ops.append(['req', reqs, picks])
            elif r < 0.93:
                code = rng.choice([0, 0, 0, 1, 1, 2, 127, -15])
                ops.append(['fin', [rng.randint(0, 5), code, code != 0 and rng.random() < 0.8]])
            else:
                ops.append(['stale', rng.choice([5, 1000, 1001, 1002, 999])])
        return {'kind': 'worker', 'nc': nc, 'ng': ng, 'ops': ops}

    def gen_mresult(self, rng):
        n = rng.randint(1, 5)
        uids = list(range(1, n + 1))
        tasks = []
        for u in uids:
            pre = rng.choice([None, None, None, '', 'DONE', 'FAILED', 'CANCELED'])
            code = rng.choice([0, 0, 0, 1, 2, -1, 127, None, 'absent'])
            tasks.append([u, pre, code])
        if rng.random() < 0.2:
            tasks.append(list(rng.choice(tasks)))
        sd = [u for u in uids if rng.random() < 0.3] + ([77] if rng.random() < 0.3 else [])
        return {'kind': 'mresult', 'sd': sd, 'tasks': tasks}

    def gen_mrequest(self, rng):
        n = rng.randint(0, 6)
        bad = rng.random() < 0.1
        tasks = []
        for u in range(1, n + 1):
            m = rng.choice(MODES + ['executable', 'func'])
            has = True
            if bad and rng.random() < 0.3:
                has, m = rng.choice([(False, None), (True, None)])
            tasks.append([u, has, m])
        return {'kind': rng.choice(['mrequest', 'mrequest', 'msubmit']), 'tasks': tasks}

    def gen_payload(self, rng, sub):
        acts = []
        for _ in range(rng.randint(0, 5)):
            r = rng.random()
            if r < 0.25:
                acts.append(['print', rng.randint(0, 99)])
            elif r < 0.35:
                acts.append(['err', rng.randint(0, 99)])
            elif r < 0.65:
                acts.append(['set', rng.randint(0, NKEYS - 1), rng.randint(0, 99)])
            elif r < 0.8:
                acts.append(['del', rng.randint(0, NKEYS - 1)])
            else:
                acts.append(['echo', rng.randint(0, NKEYS - 1)])
        if rng.random() < 0.7:
            fin = ['return', rng.randint(0, 99)]
        else:
            fin = ['raise', rng.randint(1, 99)]
        return acts, fin

    def gen_dispatch(self, rng):
        def env(p):
            return [[k, rng.randint(0, 99)] for k in range(NKEYS) if rng.random() < p]
        reqs = []
        for _ in range(rng.randint(1, 5)):
            mode = rng.choice(['func', 'func', 'meth', 'pytask', 'eval', 'eval', 'exec', 'exec', 'proc', 'shell'])
            acts, fin = self.gen_payload(rng, mode in ('proc', 'shell'))
            denv = env(0.3)
            if rng.random() < 0.08:
                denv = None
            reqs.append([mode, denv, acts, fin])
        return {'kind': 'dispatch', 'tenv': env(0.3), 'env0': env(0.4), 'rebound': rng.random() < 0.08, 'reqs': reqs}

    def gen_sched(self, rng):
        names = [1, 2, 3]
        ops, uid = [], 0
        q0 = [n for n in names if rng.random() < 0.3]
        for _ in range(rng.randint(2, 9)):
            r = rng.random()
            if r < 0.55:
                ts = []
                for _k in range(rng.randint(1, 5)):
                    uid += 1
                    rid = rng.choice([None, 0, 0, 1, 1, 2, 3])
                    ts.append([uid, rid, rng.random() < 0.1, rng.random() < 0.2])
                ops.append(['incoming', ts, rng.randint(0, len(ts))])
            elif r < 0.75:
                ops.append(['register', rng.choice(names)])
            elif r < 0.88:
                ops.append(['unregister', rng.choice(names)])
            else:
                ops.append(['cancel', sorted(set(rng.randint(1, max(1, uid)) for _k in range(rng.randint(1, 3))))])
        return {'kind': 'sched', 'queues0': q0, 'ops': ops}

    def gen_procend(self):
        for mode in ('exec', 'eval'):
            for end in (['return'], ['raise'], ['exit', False, 0], ['exit', False, 3], ['exit', True, 0],
                        ['exit', True, 3], ['kill'], ['timeout']):
                yield {'kind': 'procend', 'mode': mode, 'end': end}

    def cases(self, rng, tier):
        quick = tier == 'quick'
        for c in self.gen_procend():
            yield c
        for c in c20race.gen_cases(rng, tier):
            yield c
        for c in c20end.gen_cases(rng, tier):
            yield c
        for c in c20lin.gen_wlin(rng, tier):
            yield c
        for c in c20lin.gen_mlin(rng, tier):
            yield c
        for _ in range(400 if quick else 8000):
            yield self.gen_worker(rng, big=not quick)
        for _ in range(120 if quick else 2000):
            yield self.gen_mresult(rng)
        for _ in range(120 if quick else 2000):
            yield self.gen_mrequest(rng)
        for _ in range(220 if quick else 4000):
            yield self.gen_dispatch(rng)
        for _ in range(200 if quick else 4000):
            yield self.gen_sched(rng)
        if not quick:
            # exhaustive: every order of <= 4 requests (demands over a 3-core x 2-GPU worker) and completions
            demands = [(1, 0), (2, 1), (3, 2), (1, 2)]
            steps = [('r', d) for d in demands] + [('f', 0), ('f', 1)]
            for k in (1, 2, 3, 4, 5):
                for seq in itertools.product(steps, repeat=k):
                    if sum(1 for s in seq if s[0] == 'r') > 4:
                        continue
                    ops, uid = [], 0
                    for s in seq:
                        if s[0] == 'r':
                            uid += 1
                            ops.append(['req', [[uid, s[1][0], s[1][1], False]], [[1, 0, False]]])
                        else:
                            ops.append(['fin', [s[1], s[1], bool(s[1])]])
                    yield {'kind': 'worker', 'nc': 3, 'ng': 2, 'ops': ops}

    # ------------------------------------------------------------------ impl
    def impl_setup(self):
        self.rp = rp_import()
        self.env0 = os.environ                       # the real os._Environ mapping
        self.libc = ctypes.CDLL(None)
        self.libc.getenv.restype = ctypes.c_char_p
        self.libc.getenv.argtypes = [ctypes.c_char_p]

    def run_impl(self, case):
        return getattr(self, 'impl_' + case['kind'])(case)

    # .......................................................... worker + master
    def _master(self, adv):
        from radical.pilot.raptor.master import Master
        m = Master.__new__(Master)
        m._log = mock.MagicMock()
        m._prof = mock.MagicMock()
        m._uid = 'master.0000'
        m._task_service_data = {}

        def advance(things, state=None, publish=True, push=False, **kw):
            adv.append([list(things) if isinstance(things, list) else [things], state, publish, push])
        m.advance = advance
        return m

    def impl_worker(self, case):
        import radical.pilot.raptor.worker_default as wd
        import radical.pilot.states as rps
        nc, ng = case['nc'], case['ng']
        w = wd.DefaultWorker.__new__(wd.DefaultWorker)
        w._uid = 'worker.0000'
        w._log = mock.MagicMock()
        w._prof = mock.MagicMock()
        w._n_cores, w._n_gpus = nc, ng
        w._rlock, w._plock = threading.Lock(), threading.Lock()
        w._resources = {'cores': [0] * nc, 'gpus': [0] * ng}
        w._res_evt = mock.MagicMock()
        w._pool = {}
        w._task_env = {}
        evs, adv_calls = [], []
        master = self._master(adv_calls)
        state = {'pid': 1000, 'picks': [], 'startfail': set(), 'done': {}}

        def snap():
            return [list(w._resources['cores']), list(w._resources['gpus'])]

        class FakeProcess:
            def __init__(self, target=None, args=(), **kw):
                self.task = args[0]
                self.pid = None

            def start(self):
                if self.task['uid'] in state['startfail']:
                    raise OSError('cannot fork')
                self.pid = state['pid']
                state['pid'] += 1
                sl = self.task['slots'][0]
                evs.append(['start', uid_of(self.task['uid']), self.pid, list(sl['cores']), list(sl['gpus'])] + snap())

        class ResPut:
            def put(self, task):
                evs.append(['result', uid_of(task['uid']), task.get('exit_code'),
                            task.get('exception') is not None] + snap())
                master._result_cb(copy.deepcopy(task))
        w._res_put = ResPut()

        def complete(p):
            k, code, exc = p
            pids = list(w._pool.keys())
            if not pids:
                return
            pid = pids[k % len(pids)]
            task = copy.deepcopy(w._pool[pid].task)
            task['pid'] = pid
            state['done'][pid] = task
            res = [task, 'out', 'err', code, None, ('RuntimeError("x")', 'tb') if exc else (None, None)]
            try:
                w._result_cb(res)
            except Exception as e:
                evs.append(['raise', 1, type(e).__name__])

        def sleep(_t):
            if not w._pool:
                raise Deadlock()
            p = state['picks'].pop(0) if state['picks'] else [0, 0, False]
            complete(p)

        mp_shim = mock.MagicMock()
        mp_shim.Process = FakeProcess
        time_shim = mock.MagicMock()
        time_shim.sleep = sleep
        with mock.patch.object(wd, 'mp', mp_shim), mock.patch.object(wd, 'time', time_shim):
            for o in case['ops']:
                if o[0] == 'req':
                    tasks = []
                    for u, c, g, sf in o[1]:
                        t = {'uid': 'req.%06d' % u, 'description': {'mode': 'task.function', 'timeout': 0}}
                        if c is not None:
                            t['cores'] = c
                        if g is not None:
                            t['gpus'] = g
                        if sf:
                            state['startfail'].add(t['uid'])
                        tasks.append(t)
                    state['picks'] = [list(p) for p in o[2]]
                    try:
                        w._request_cb(tasks)
                    except Deadlock:
                        evs.append(['stuck'])
                    except Exception as e:
                        evs.append(['raise', 0, type(e).__name__])
                elif o[0] == 'fin':
                    complete(o[1])
                else:
                    pid = o[1]
                    if pid in w._pool:
                        k = list(w._pool.keys()).index(pid)
                        complete([k, 0, False])
                    else:
                        task = copy.deepcopy(state['done'].get(pid)) or {
                            'uid': 'req.%06d' % 0, 'pid': pid, 'slots': [{'cores': [], 'gpus': []}]}
                        try:
                            w._result_cb([task, 'out', 'err', 0, None, (None, None)])
                        except Exception as e:
                            evs.append(['raise', 1, type(e).__name__])
        adv = []
        for things, st, publish, push in adv_calls:
            for t in things:
                ts = t.get('target_state')
                adv.append([uid_of(t['uid']), ts if (st == rps.AGENT_STAGING_OUTPUT_PENDING and publish and push
                                                     and ts in TGT) else 'BAD'])
        return {'evs': evs, 'final': snap() + [list(w._pool.keys())], 'adv': adv}

    # .......................................................... master
    def _mstate(self, s):
        import radical.pilot.states as rps
        return {rps.AGENT_STAGING_INPUT_PENDING: 'S_STAGING_INPUT_PENDING', rps.AGENT_SCHEDULING: 'S_SCHEDULING',
                rps.AGENT_STAGING_OUTPUT_PENDING: 'S_STAGING_OUTPUT_PENDING', rps.FAILED: 'S_FAILED'}.get(s, 'S_BAD')

    def impl_mresult(self, case):
        adv_calls = []
        m = self._master(adv_calls)
        for u in case['sd']:
            m._task_service_data['task.%06d' % u] = [threading.Event(), {'uid': 'task.%06d' % u}]
        tasks = []
        for u, pre, code in case['tasks']:
            t = {'uid': 'task.%06d' % u, 'description': {'mode': 'task.function'}}
            if pre is not None:
                t['target_state'] = pre
            if code != 'absent':
                t['exit_code'] = code
            tasks.append(t)
        exc = None
        try:
            m._result_cb(tasks)
        except Exception as e:
            exc = type(e).__name__
        evs = [['advance', [uid_of(t['uid']) for t in things], self._mstate(st), publish, push]
               for things, st, publish, push in adv_calls]
        if exc:
            evs.append(['raise', exc])
        return {'sd': [[uid_of(k), len(v) - 2, v[0].is_set()] for k, v in m._task_service_data.items()],
                'targets': [[uid_of(t['uid']), t.get('target_state') if t.get('target_state') in TGT else 'BAD']
                            for t in tasks],
                'evs': evs}

    def _mode_str(self, m):
        rp = self.rp
        return dict(executable=rp.TASK_EXECUTABLE, func=rp.TASK_FUNCTION, meth=rp.TASK_METHOD, eval=rp.TASK_EVAL,
                    exec=rp.TASK_EXEC, proc=rp.TASK_PROC, shell=rp.TASK_SHELL, other=rp.TASK_SERVICE)[m]

    def impl_mrequest(self, case):
        import radical.pilot.constants as rpc
        adv_calls, evs = [], []
        m = self._master(adv_calls)
        m._psbox, m._ssbox, m._rsbox, m._pid = '/p', '/s', '/r', 'pilot.0000'
        m._session = mock.MagicMock()
        m._session._get_task_sandbox = lambda task, pilot: 'file:///p/%s/' % task['uid']

        def advance(things, state=None, publish=True, push=False, **kw):
            things = things if isinstance(things, list) else [things]
            evs.append(['advance', [uid_of(t['uid']) for t in things], self._mstate(state), publish, push])
        m.advance = advance

        def publish(topic, msg):
            if topic == rpc.STATE_PUBSUB and msg.get('cmd') == 'insert':
                evs.append(['insert', uid_of(msg['arg']['uid'])])
            else:
                evs.append(['insert', -999])
        m.publish = publish
        m._req_put = mock.MagicMock()
        m._req_put.put = lambda tasks: evs.append(
            ['reqput', [uid_of(t['uid']) for t in (tasks if isinstance(tasks, list) else [tasks])]])
        tasks = []
        for u, has, md in case['tasks']:
            t = {'uid': 'task.%06d' % u}
            if has:
                t['description'] = {'uid': t['uid'], 'ranks': 1, 'cores_per_rank': 1, 'gpus_per_rank': 0}
                if md is not None:
                    t['description']['mode'] = self._mode_str(md)
            tasks.append(t)
        try:
            if case['kind'] == 'mrequest':
                m._request_cb(tasks)
            else:
                m.submit_tasks(tasks)
        except Exception as e:
            evs.append(['raise', type(e).__name__])
        return {'seen': [uid_of(t['uid']) for t in tasks if t.get('raptor_seen')], 'evs': evs}

    impl_msubmit = impl_mrequest

    # .......................................................... dispatchers
    def _reset_env(self, env0):
        os.environ = self.env0
        for k in range(NKEYS):
            os.environ.pop(key(k), None)
        for k, v in env0:
            os.environ[key(k)] = str(v)

    def _views(self):
        py = [int(os.environ[key(k)]) if key(k) in os.environ else None for k in range(NKEYS)]
        pr = []
        for k in range(NKEYS):
            v = self.libc.getenv(key(k).encode())
            pr.append(None if v is None else int(v))
        return py, pr

    def impl_dispatch(self, case):
        from radical.pilot.raptor.worker_default import DefaultWorker
        from radical.pilot.pytask import PythonTask
        import functools
        w = DefaultWorker.__new__(DefaultWorker)
        w._uid = 'worker.0000'
        w._log = mock.MagicMock()
        w._prof = mock.MagicMock()
        w._task_env = {'PATH': '/usr/bin:/bin'}
        for k, v in case['tenv']:
            w._task_env[key(k)] = str(v)
        w.c20_payload = c20_payload
        self._reset_env(case['env0'])
        if case['rebound']:
            os.environ = dict(os.environ)
        out = []
        try:
            for i, (mode, denv, acts, fin) in enumerate(case['reqs']):
                d = {}
                if denv is not None:
                    d['environment'] = {key(k): str(v) for k, v in denv}
                t = {'uid': 'req.%06d' % i, 'description': d}
                bak = (sys.stdout, sys.stderr)
                word = None
                try:
                    if mode == 'func':
                        d.update(function='c20_payload', args=[acts, fin], kwargs={})
                        r = asyncio.run(w._dispatch_func(t))
                        word = 'call'
                    elif mode == 'meth':
                        d.update(method='c20_payload', args=[acts, fin], kwargs={})
                        r = asyncio.run(w._dispatch_meth(t))
                        word = 'call'
                    elif mode == 'pytask':
                        d.update(function=PythonTask(functools.partial(c20_payload, acts, fin), (), {}), args=[], kwargs={})
                        r = asyncio.run(w._dispatch_func(t))
                        word = 'call'
                    elif mode == 'eval':
                        d.update(code=py_expr(acts, fin))
                        r = w._dispatch_eval(t)
                        word = 'eval'
                    elif mode == 'exec':
                        d.update(code=py_code(acts, fin))
                        r = w._dispatch_exec(t)
                        word = 'exec'
                    elif mode == 'proc':
                        d.update(executable='/bin/sh', arguments=['-c', sh_script(acts, fin)])
                        r = w._dispatch_proc(t)
                    else:
                        d.update(command=sh_script(acts, fin))
                        r = w._dispatch_shell(t)
                    o, e, ret, val, exc = r
                    if isinstance(o, bytes):
                        o = o.decode()
                    if isinstance(e, bytes):
                        e = e.decode()
                    fail = None
                    if word:
                        mark = '\n%s failed: ' % word
                        if mark in e:
                            e, msg = e.split(mark, 1)
                            fail = int(msg[1:]) if msg[:1] == 'm' and msg[1:].isdigit() else -998
                        elif ' failed' in e:
                            fail = -997
                    elif o is None:
                        fail = 0 if e == "%s failed: 'environment'" % ('exec' if mode == 'proc' else 'shell') else -998
                        e = ''
                    res = {'out': None if o is None else toks(o), 'err': toks(e), 'fail': fail,
                           'ret': ret if isinstance(ret, int) else -999,
                           'val': val if (val is None or isinstance(val, int)) else -999,
                           'exc': exc[0] is not None}
                except Exception as ex:
                    res = {'out': None, 'err': [], 'fail': -996, 'ret': -996, 'val': None, 'exc': True,
                           'raised': '%s: %s' % (type(ex).__name__, ex)}
                py, pr = self._views()
                out.append({'res': res, 'py': py, 'pr': pr, 'bound': isinstance(os.environ, os._Environ),
                            'stdio': sys.stdout is bak[0] and sys.stderr is bak[1]})
                sys.stdout, sys.stderr = bak
        finally:
            self._reset_env([])
        return {'per_req': out}

    # .......................................................... process wrapper
    def impl_endseq(self, case):
        return c20end.Runner(self).run(case)

    def impl_wlin(self, case):
        return c20lin.impl_wlin(case)

    def impl_mlin(self, case):
        return c20lin.impl_mlin(case)

    def impl_race(self, case):
        return c20race.impl_race(case)

    def impl_procend(self, case):
        import multiprocessing as mp
        import radical.pilot.raptor.worker_default as wd
        end, mode = case['end'], case['mode']
        if mode == 'exec':
            code = {'return': 'return 5', 'raise': 'raise ValueError("m1")',
                    'exit': 'import os, sys\n%s(%d)' % ('os._exit' if end[1:] and end[1] else 'sys.exit',
                                                        end[2] if end[1:] else 0),
                    'kill': 'import os, signal\nos.kill(os.getpid(), signal.SIGKILL)',
                    'timeout': 'import time\ntime.sleep(30)'}[end[0]]
        else:
            code = {'return': '5', 'raise': '1/0',
                    'exit': '%s(%d)' % ('os._exit' if end[1:] and end[1] else 'sys.exit', end[2] if end[1:] else 0),
                    'kill': 'os.kill(os.getpid(), 9)', 'timeout': 'time.sleep(30)'}[end[0]]
        w = wd.DefaultWorker.__new__(wd.DefaultWorker)
        w._uid = 'worker.0000'
        w._log, w._prof = mock.MagicMock(), mock.MagicMock()
        w._sbox = os.getcwd()
        w._task_env = {}
        w._result_queue = mp.Queue()
        w._modes = {}
        w.register_mode('task.eval', w._dispatch_eval)
        w.register_mode('task.exec', w._dispatch_exec)
        task = {'uid': 'req.000001', 'slots': [{'cores': [0], 'gpus': []}],
                'task_sandbox_path': os.path.join(os.getcwd(), 'sbox'),
                'description': {'mode': 'task.' + mode, 'code': code, 'environment': {},
                                'timeout': 0.25 if end[0] == 'timeout' else 0}}
        p = mp.Process(target=w._dispatch, args=(task, {}))
        p.start()
        p.join(30)
        if p.is_alive():
            p.kill()
        res = []
        try:
            while True:
                r = w._result_queue.get(timeout=0.1)
                res.append([r[3] if isinstance(r[3], int) else -999, r[5][0] is not None])
        except queue.Empty:
            pass
        return {'results': res}

    # .......................................................... scheduler
    def impl_sched(self, case):
        import radical.utils as ru
        import radical.pilot.states as rps
        from radical.pilot.agent.scheduler.base import AgentSchedulingComponent as ASC

        def rname(n):
            return '*' if n == 0 else 'master.%04d' % n

        def rnum(s):
            return 0 if s == '*' else uid_of(s)

        evs = []
        local = []

        class FakePutter:
            def __init__(self, q, addr=None, **kw):
                self.name = q

            def put(self, tasks):
                tasks = tasks if isinstance(tasks, list) else [tasks]
                evs.append(['put', rnum(self.name), [uid_of(t['uid']) for t in tasks]])

        class FakeQ:
            def __init__(self):
                self.items = []

            def put(self, x):
                self.items.append(x)

            def get(self, timeout=None):
                if not self.items:
                    raise queue.Empty()
                return self.items.pop(0)

        s = ASC.__new__(ASC)
        s._scheduler_process = True
        s._log, s._prof = mock.MagicMock(), mock.MagicMock()
        s._uid = 'agent_scheduling.0000'
        s._raptor_queues, s._raptor_tasks, s._raptor_lock = {}, {}, threading.Lock()
        s._raptor_gone = set()
        s._cancel_list, s._cancel_lock = [], threading.RLock()
        s._queue_sched = FakeQ()
        s._term = mock.MagicMock()
        s._term.is_set = lambda: False
        s._waitpool = defaultdict(dict)
        s._named_envs = []
        s._ts_valid = True
        s._try_allocation = lambda task: True

        def advance(things, state=None, publish=True, push=False, **kw):
            things = things if isinstance(things, list) else [things]
            u = [uid_of(t['uid']) for t in things]
            if state == rps.FAILED:
                evs.extend(['fail', x] for x in u)
            elif state == rps.CANCELED:
                if push:
                    evs.append(['cancel', u])
            elif state == rps.AGENT_EXECUTING_PENDING:
                local.extend(u)
            else:
                evs.append(['fail', -999])
        s.advance = advance
        with mock.patch.object(ru.zmq, 'Putter', FakePutter):
            for n in case['queues0']:
                s.control_cb('control', {'cmd': 'register_raptor_queue',
                                         'arg': {'name': rname(n), 'queue': rname(n), 'addr': 'tcp://x'}})
            for o in case['ops']:
                if o[0] == 'incoming':
                    tasks = []
                    for u, rid, isw, seen in o[1]:
                        d = {'uid': 'task.%06d' % u, 'ranks': 1, 'cores_per_rank': 1, 'gpus_per_rank': 0,
                             'priority': 0, 'mode': 'raptor.worker' if isw else 'task.function',
                             'raptor_id': None if rid is None else rname(rid), 'named_env': None, 'slots': None}
                        t = {'uid': d['uid'], 'description': d}
                        if seen:
                            t['raptor_seen'] = True
                        tasks.append(t)
                    k = o[2]
                    for part in (tasks[:k], tasks[k:]):
                        if part:
                            s._queue_sched.put((part, ASC._SCHEDULE))
                    del local[:]
                    try:
                        s._schedule_incoming()
                    except Exception as e:
                        evs.append(['fail', -998])
                    if local:
                        evs.append(['local', list(local)])
                else:
                    if o[0] == 'register':
                        msg = {'cmd': 'register_raptor_queue', 'arg': {'name': rname(o[1]), 'queue': rname(o[1]),
                                                                       'addr': 'tcp://x'}}
                    elif o[0] == 'unregister':
                        msg = {'cmd': 'unregister_raptor_queue', 'arg': {'name': rname(o[1]), 'queue': rname(o[1])}}
                    else:
                        msg = {'cmd': 'cancel_tasks', 'arg': {'uids': ['task.%06d' % u for u in o[1]]}}
                    try:
                        s.control_cb('control', msg)
                    except Exception as e:
                        evs.append(['fail', -997])
        return {'evs': evs, 'queues': [rnum(k) for k in s._raptor_queues],
                'backlog': [[rnum(k), [uid_of(t['uid']) for t in v]] for k, v in s._raptor_tasks.items()],
                'gone': sorted(rnum(k) for k in s._raptor_gone)}

    # ------------------------------------------------------------------ coq
    def _wargs(self, case):
        return '%s %s %s' % (L.nat(case['nc']), L.nat(case['ng']), L.lst([wop_lit(o) for o in case['ops']]))

    def _rtasks(self, case):
        return L.lst(['(%s, %s, %s)' % (L.Z(u), 'None' if not pre else '(Some %s)' % TGT[pre],
                                        zopt(None if code in (None, 'absent') else code))
                      for u, pre, code in case['tasks']])

    def _dargs(self, case):
        return '%s %s %s %s' % (envlit(case['tenv']), envlit(case['env0']), L.boolean(not case['rebound']),
                                L.lst([dreq_lit(r) for r in case['reqs']]))

    def _sargs(self, case):
        return '%s %s' % (L.zlist(case['queues0']), L.lst([sop_lit(o) for o in case['ops']]))

    def _pend(self, case):
        e = case['end']
        if e[0] == 'exit':
            return '(PExit %s %s)' % (L.boolean(e[1]), L.Z(e[2]))
        return dict(kill='PKill', timeout='PTimeout')[e[0]] if e[0] in ('kill', 'timeout') else \
            {'return': 'PReturn', 'raise': 'PRaise'}[e[0]]

    def coq_row(self, case, obs):
        # last clause, threads_alive: no raptor service thread (result watcher, heartbeat thread, the
        # callback threads of a two-thread case) ended with an exception
        k = case['kind']
        alive = True
        if k == 'race':
            alive = bool(obs['alive'])
        elif k in ('wlin', 'mlin'):
            alive = not obs['errs'] and obs.get('alive', True)
        extra = c20race.extra_row(obs) if k == 'race' else '[true; true]'
        return '(%s ++ [%s] ++ %s)' % (self._coq_row(case, obs), L.boolean(alive), extra)

    def _coq_row(self, case, obs):
        k = case['kind']
        if k == 'race':
            return c20race.coq_row(case, obs)
        if k == 'endseq':
            return c20end.coq_row(case, obs)
        if k == 'wlin':
            return c20lin.wlin_row(case, obs)
        if k == 'mlin':
            return c20lin.mlin_row(case, obs)
        if k == 'procend':
            return '(c20_procend_row %s %s)' % (self._pend(case), L.lst(
                ['(%s, %s)' % (L.Z(r), L.boolean(x)) for r, x in obs['results']]))
        if k == 'worker':
            f = obs['final']
            return '(c20_worker_row %s %s (%s, %s, %s) %s)' % (
                self._wargs(case), L.lst([wev_lit(e) for e in obs['evs']]), bm(f[0]), bm(f[1]), L.zlist(f[2]),
                L.lst(['(%s, %s)' % (L.Z(u), TGT.get(t, 'TCanceled') if t != 'BAD' else 'TCanceled')
                       for u, t in obs['adv']]))
        if k == 'mresult':
            sd0 = L.lst(['(%s, (%s, false))' % (L.Z(u), L.Z(0)) for u in case['sd']])
            osd = L.lst(['(%s, (%s, %s))' % (L.Z(u), L.Z(n), L.boolean(b)) for u, n, b in obs['sd']])
            otg = L.lst(['(%s, %s)' % (L.Z(u), TGT[t]) for u, t in obs['targets'] if t in TGT])
            return '(c20_mresult_row %s %s %s %s %s)' % (sd0, self._rtasks(case), osd, otg,
                                                         L.lst([mev_lit(e) for e in obs['evs']]))
        if k == 'mrequest':
            return '(c20_mrequest_row %s %s %s)' % (L.lst([itask_lit(t) for t in case['tasks']]),
                                                    L.zlist(obs['seen']), L.lst([mev_lit(e) for e in obs['evs']]))
        if k == 'msubmit':
            return '(c20_msubmit_row %s %s)' % (L.lst([itask_lit(t) for t in case['tasks']]),
                                                L.lst([mev_lit(e) for e in obs['evs']]))
        if k == 'dispatch':
            ob = L.lst(['(%s, %s, %s, %s, %s)' % (dres_lit(o['res']), view_lit(o['py']), view_lit(o['pr']),
                                                  L.boolean(o['bound']), L.boolean(o['stdio']))
                        for o in obs['per_req']])
            return '(c20_dispatch_row %s %s)' % (self._dargs(case), ob)
        return '(c20_sched_row %s %s %s %s %s)' % (
            self._sargs(case), L.lst([sev_lit(e) for e in obs['evs']]), L.zlist(obs['queues']),
            L.lst(['(%s, %s)' % (L.Z(n), L.zlist(us)) for n, us in obs['backlog']]), L.zlist(obs.get('gone', [])))

    def model_show(self, case):
        k = case['kind']
        if k == 'race':
            return c20race.model_show(case)
        if k == 'endseq':
            return c20end.model_show(case)
        if k == 'wlin':
            return c20lin.wlin_show(case)
        if k == 'mlin':
            return c20lin.mlin_show(case)
        if k == 'procend':
            return 'proc_results %s' % self._pend(case)
        if k == 'worker':
            return 'wrun (winit %s %s) %s' % (L.nat(case['nc']), L.nat(case['ng']),
                                              L.lst([wop_lit(o) for o in case['ops']]))
        if k == 'mresult':
            return 'master_result %s %s' % (L.lst(['(%s, (%s, false))' % (L.Z(u), L.Z(0)) for u in case['sd']]),
                                            self._rtasks(case))
        if k == 'mrequest':
            return 'master_request %s' % L.lst([itask_lit(t) for t in case['tasks']])
        if k == 'msubmit':
            return 'submit_tasks %s' % L.lst([itask_lit(t) for t in case['tasks']])
        if k == 'dispatch':
            return ('map (fun m : dres * world => (fst m, view (py_env (snd m)), view (pr_env (snd m)), bound (snd m))) '
                    '(drun %s (mkWorld %s %s %s) %s)' % (
                        envlit(case['tenv']), envlit(case['env0']), envlit(case['env0']),
                        L.boolean(not case['rebound']), L.lst([dreq_lit(r) for r in case['reqs']])))
        return 'srun (mkS %s [] []) %s' % (L.zlist(case['queues0']), L.lst([sop_lit(o) for o in case['ops']]))

    # ------------------------------------------------------------------ misc
    def nontrivial(self, case, obs):
        k = case['kind']
        if k in ('wlin', 'mlin'):
            return bool(obs['held'])
        if k == 'endseq':
            return any(r[4] != 'normal' for r in case['reqs'])
        if k == 'race':
            # the two parties really interleave after the timeout expired
            ps = [e[0] for e in obs['trace']]
            return 'X' in ps and 'T' in ps[ps.index('X'):] and 'D' in ps[ps.index('X'):]
        if k == 'procend':
            return case['end'][0] != 'return'
        if k == 'worker':
            run, best = 0, 0
            for e in obs['evs']:
                if e[0] == 'start':
                    run += 1
                elif e[0] == 'result' and e[2] is not None:
                    run -= 1
                best = max(best, run)
            return best >= 2
        if k == 'mresult':
            ts = set(t for _, t in obs['targets'])
            return 'DONE' in ts and 'FAILED' in ts
        if k in ('mrequest', 'msubmit'):
            kinds = set(e[0] for e in obs['evs'])
            return 'insert' in kinds and 'reqput' in kinds
        if k == 'dispatch':
            return len(case['reqs']) >= 2 and any(a[0] in ('set', 'del') for r in case['reqs'] for a in r[2])
        kinds = set(e[0] for e in obs['evs'])
        return 'put' in kinds and (bool(obs['backlog']) or 'fail' in kinds or 'cancel' in kinds)

    SITE = dict(endseq='Worker._dispatch + probe', wlin='DefaultWorker two threads', mlin='Master two threads', race='DefaultWorker._dispatch/_result_watcher', procend='DefaultWorker._dispatch', worker='DefaultWorker._request_cb/_result_cb', mresult='Master._result_cb',
                mrequest='Master._request_cb', msubmit='Master._submit_tasks', dispatch='Worker._dispatch',
                sched='AgentSchedulingComponent._schedule_incoming/control_cb')

    def signature(self, case, obs, clause):
        k = case['kind']
        cond = ''
        if k == 'worker':
            oob = any(not (1 <= (c if c is not None else 1) <= case['nc'] and 0 <= (g or 0) <= case['ng'])
                      for o in case['ops'] if o[0] == 'req' for _, c, g, _sf in o[1])
            cond = ':demand-beyond-worker' if oob else ':demand-within-worker'
        if k == 'endseq':
            cond = ':' + case['via']
        if k == 'wlin':
            cond = ':%s-held-vs-%s' % (case['first'][0], case['second'][0])
        if k == 'mlin':
            cond = ':' + case['sub']
        if k == 'race':
            n = len(obs['queue'])
            cond = ':%s' % ('no-result' if n == 0 else 'one-result' if n == 1 else 'reported-%d-times' % n)
            if obs.get('reported_while_alive'):
                cond += ':reported-while-process-alive'
        if k == 'procend':
            cond = ':process-ended-without-result' if not obs['results'] else ':' + case['end'][0]
        return '%s:%s%s' % (clause, self.SITE[k], cond)

    def shrink(self, case):
        k = case['kind']
        if k == 'race':
            for c in c20race.shrink(case):
                yield c
            return
        if k == 'endseq':
            for c in c20end.shrink(case):
                yield c
            return
        if k == 'wlin':
            for i in range(len(case['prefix'])):
                if case['second'][0] != 'fin' and case['first'][0] != 'fin':
                    yield dict(case, prefix=case['prefix'][:i] + case['prefix'][i + 1:])
            return
        if k == 'mlin':
            return
        if k in ('worker', 'sched'):
            ops = case['ops']
            for i in range(len(ops)):
                yield dict(case, ops=ops[:i] + ops[i + 1:])
            for i, o in enumerate(ops):
                if o[0] in ('req', 'incoming') and len(o[1]) > 1:
                    for j in range(len(o[1])):
                        o2 = list(o)
                        o2[1] = o[1][:j] + o[1][j + 1:]
                        if o[0] == 'incoming':
                            o2[2] = min(o2[2], len(o2[1]))
                        yield dict(case, ops=ops[:i] + [o2] + ops[i + 1:])
                if o[0] == 'req' and o[2]:
                    yield dict(case, ops=ops[:i] + [[o[0], o[1], []]] + ops[i + 1:])
        elif k in ('mresult', 'mrequest', 'msubmit'):
            ts = case['tasks']
            for i in range(len(ts)):
                yield dict(case, tasks=ts[:i] + ts[i + 1:])
            if case.get('sd'):
                yield dict(case, sd=[])
        elif k == 'dispatch':
            rs = case['reqs']
            for i in range(len(rs)):
                if len(rs) > 1:
                    yield dict(case, reqs=rs[:i] + rs[i + 1:])
            for i, r in enumerate(rs):
                for j in range(len(r[2])):
                    yield dict(case, reqs=rs[:i] + [[r[0], r[1], r[2][:j] + r[2][j + 1:], r[3]]] + rs[i + 1:])
                if r[1]:
                    yield dict(case, reqs=rs[:i] + [[r[0], [], r[2], r[3]]] + rs[i + 1:])
            if case['env0']:
                yield dict(case, env0=[])
            if case['tenv']:
                yield dict(case, tenv=[])

    def distribution(self, results):
        kinds, nreq, raised, stuck, modes = {}, [], 0, 0, {}
        for r in results:
            c = r['case']
            kinds[c['kind']] = kinds.get(c['kind'], 0) + 1
            if c['kind'] == 'worker':
                nreq.append(sum(len(o[1]) for o in c['ops'] if o[0] == 'req'))
                if r['obs']:
                    raised += any(e[0] == 'raise' for e in r['obs']['evs'])
                    stuck += any(e[0] == 'stuck' for e in r['obs']['evs'])
            if c['kind'] == 'procend':
                modes['process-end:' + c['end'][0]] = modes.get('process-end:' + c['end'][0], 0) + 1
            if c['kind'] == 'dispatch':
                for q in c['reqs']:
                    modes[q[0]] = modes.get(q[0], 0) + 1
        return dict(kinds=kinds, mean_requests_per_worker_stream=round(sum(nreq) / max(1, len(nreq)), 2),
                    worker_streams_with_exception=raised, worker_streams_stuck=stuck, dispatch_modes=modes)


PROP = C20()
