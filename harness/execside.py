"""Executor side for properties whose statement reaches into the Popen executor (C03: resources are given back
exactly once when exit, cancel, timeout and launch errors race; C05: one truthful final hand-over per task).

A mixin over any Prop: adds executor cases (the scenarios and schedules of C07, run on the real executor threads
under the line-granular scheduler of harness/execlib.py) and the selected clauses of RP.Exec.Oracle.c07_row; rows
of the host property are padded with `true` for the executor clauses and vice versa.  Executor cases are evaluated
under their own Coq imports (Prop.header_for)."""
from . import execlib as X

C07_CLAUSES = X.C07_CLAUSES      # the clause names of RP.Exec.Oracle.c07_row, in its order
KIND = 'execside'


def _p7():
    from .c07 import PROP
    return PROP


class ExecSide(object):
    exec_sel = []               # names out of C07_CLAUSES
    exec_n = (120, 2500)        # executor cases per tier
    exec_total = None           # number of host + executor clauses, when further clauses follow (harness/sides.py)
    exec_header = X.COQ_HEADER
    exec_trusted = ('executor side: harness/execlib.py (real Popen executor object without __init__, four real threads '
                    'under a sys.settrace line-granular scheduler, fake subprocess.Popen/os.killpg/clock); steps and '
                    'emissions compared with RP.Exec.Model.run inside Coq')
    exec_rule = ('executor scenarios of 1-3 tasks x launch faults x run-time limit x process outlives the kill x 0-2 cancel messages under sampled '
                 'thread schedules (as for C07)')

    @classmethod
    def exec_clauses(cls):
        return ['exec:' + c for c in cls.exec_sel]

    def is_exec(self, case):
        return isinstance(case, dict) and case.get('kind') == KIND

    def header_for(self, case):
        return self.exec_header if self.is_exec(case) else self.header

    def cases(self, rng, tier):
        for c in super().cases(rng, tier):
            yield c
        n = self.exec_n[0] if tier == 'quick' else self.exec_n[1]
        for i in range(n):
            sc = X.gen_scenario(rng)
            yield {'kind': KIND, 'sc': dict(sc, sched=X.gen_sched(rng, sc))}
        yield {'kind': KIND, 'sc': X.big_case(103, rng)}      # more than one bulk (100) of the watcher's pulls
        for f in X.FAULTS:
            for to in (False, True):
                for named in (False, True):
                    for stub in ((False, True) if f == 'none' else (False,)):     # a process that outlives the kill
                        sc = {'batches': [[{'uid': 1, 'fault': f, 'timeout': to, 'stubborn': stub,
                                            'stage_on_error': named != to}]],
                              'cancels': [[1]] if named else [], 'exit_codes': {'1': 3}}
                        yield {'kind': KIND, 'sc': dict(sc, sched=X.gen_sched(rng, sc, rng.randint(4, 40)))}

    def run_impl(self, case):
        if self.is_exec(case):
            p7 = _p7()
            p7.rp = self.rp             # set by the host's impl_setup
            return p7.run_impl(case['sc'])
        return super().run_impl(case)

    def coq_row(self, case, obs):
        nb = (self.exec_total or len(self.clauses)) - len(self.exec_sel)      # clauses before the executor's
        if self.is_exec(case):
            sel = '; '.join('nth %d%%nat r true' % (1 + C07_CLAUSES.index(c)) for c in self.exec_sel)
            return '(let r := (c07_row %s) in hd false r :: (repeat true %d%%nat ++ [%s]))' % (
                X.coq_row_args(case['sc'], obs), nb, sel)
        return '(%s ++ repeat true %d%%nat)' % (super().coq_row(case, obs), len(self.exec_sel))

    def model_show(self, case):
        if self.is_exec(case):
            return _p7().model_show(case['sc'])
        return super().model_show(case)

    def nontrivial(self, case, obs):
        if self.is_exec(case):
            return _p7().nontrivial(case['sc'], obs)
        return super().nontrivial(case, obs)

    def signature(self, case, obs, clause):
        if self.is_exec(case):
            return 'exec:' + _p7().signature(case['sc'], obs, clause.replace('exec:', ''))
        return super().signature(case, obs, clause)

    def shrink(self, case):
        if self.is_exec(case):
            for sc in _p7().shrink(case['sc']):
                yield {'kind': KIND, 'sc': sc}
        else:
            for c in super().shrink(case):
                yield c

    def describe(self, case):
        if self.is_exec(case):
            return case
        return super().describe(case)

    def distribution(self, results):
        host = [r for r in results if not self.is_exec(r['case'])]
        d = super().distribution(host)
        ex = [dict(r, case=r['case']['sc']) for r in results if self.is_exec(r['case'])]
        d['executor_side'] = _p7().distribution(ex)
        d['executor_side']['cases'] = len(ex)
        return d
