"""C15 -- waiting on tasks and pilots returns when it should.

Implementation under test (real methods, virtual clock): Task.wait, Pilot.wait,
TaskManager.wait_tasks, PilotManager.wait_pilots.

The `time` name of the four modules is replaced by a virtual clock: `sleep(d)`
advances the clock by exactly d (as a Fraction) and sets `_state` of every
entity from its trajectory (one entry per 0.1 s tick, the last entry repeats
for ever); `time()` returns the clock (offset by a case-chosen start value).
`_terminate.is_set()` becomes true at a case-chosen tick.  A run that sleeps
more often than `budget` = longest trajectory + timeout + termination tick +
SLACK is recorded as `Spins` (a private exception is raised from the patched
sleep so that a hanging implementation cannot hang the harness)."""
import itertools
import math
import threading
from fractions import Fraction
from unittest import mock

from . import coqlit as L
from .core import Prop, rp_import
from .sides import Sides, Spec

SLACK = 6
TFINAL = ['DONE', 'FAILED', 'CANCELED']
TSTATES = ['NEW', 'TMGR_SCHEDULING_PENDING', 'TMGR_SCHEDULING', 'TMGR_STAGING_INPUT_PENDING',
           'TMGR_STAGING_INPUT', 'AGENT_STAGING_INPUT_PENDING', 'AGENT_STAGING_INPUT',
           'AGENT_SCHEDULING_PENDING', 'AGENT_SCHEDULING', 'AGENT_EXECUTING_PENDING', 'AGENT_EXECUTING',
           'AGENT_STAGING_OUTPUT_PENDING', 'AGENT_STAGING_OUTPUT', 'TMGR_STAGING_OUTPUT_PENDING',
           'TMGR_STAGING_OUTPUT']
PSTATES = ['NEW', 'PMGR_LAUNCHING_PENDING', 'PMGR_LAUNCHING', 'PMGR_ACTIVE_PENDING', 'PMGR_ACTIVE']
TASK_FNS = ('task_wait', 'wait_tasks')
FNS = ('task_wait', 'pilot_wait', 'wait_tasks', 'wait_pilots')


class _Spin(BaseException):
    """raised by the virtual clock when the polling budget is used up"""


class Clock:
    """stands in for the `time` module inside the module under test"""

    def __init__(self, t0, budget, on_tick):
        self.t0 = Fraction(t0, 10)
        self.now = Fraction(t0, 10)
        self.budget = budget
        self.sleeps = 0
        self.on_tick = on_tick
        self.odd = False

    def time(self):
        return self.now

    def sleep(self, d):
        self.sleeps += 1
        if self.sleeps > self.budget:
            raise _Spin()
        self.now += Fraction(repr(d))
        self.on_tick(self.tick())

    def rel(self):
        return (self.now - self.t0) * 10

    def tick(self):
        r = self.rel()
        if r.denominator != 1:
            self.odd = True
        return int(r)                       # floor


class Term:
    """stands in for the manager's `_terminate` event"""

    def __init__(self, clock, at):
        self.clock, self.at = clock, at

    def is_set(self):
        return self.at is not None and self.clock.tick() >= self.at


def at(traj, k):
    return traj[k] if k < len(traj) else traj[-1]


def pfx(fn):
    return 'T_' if fn in TASK_FNS else 'P_'


def tmo_ticks(t):
    """the case's timeout in ticks of 0.1 s, exactly: None | Fraction (an int, or a string 'p/q'; may be negative)"""
    return None if t is None else Fraction(t)


def tmo_deadline(t):
    """first tick at which `timeout and timeout <= elapsed` holds (None: never)"""
    t = tmo_ticks(t)
    if t is None or t == 0:
        return None
    return 0 if t < 0 else math.ceil(t)


def budget_of(case):
    ents = [case['traj']] if 'traj' in case else [e[1] for e in case['ents']]
    return max([len(t) for t in ents] + [0]) + (tmo_deadline(case.get('timeout')) or 0) + (case.get('term') or 0) + SLACK


def timeout_arg(t):
    """what is passed as `timeout=`: seconds, exact (an int for whole seconds as an application would pass, else
    a Fraction; never a float that is not exactly the value meant)"""
    t = tmo_ticks(t)
    if t is None:
        return None
    s = t / 10
    return int(s) if s.denominator == 1 else s


class C15Wait(Prop):
    id = 'C15'
    module = 'c15'
    title = 'Waiting on tasks and pilots returns when it should'
    props_files = ['Props/C15.v']
    extra_targets = ['Wait/Oracle.vo']
    model_targets = ['Wait/Oracle.vo']
    translators = ['states']
    header = 'From RP Require Import Gen.StatesTables Wait.Model Wait.Inst Wait.Oracle.'
    clauses = ['truthful', 'timely', 'timeout', 'justified', 'no_exception']
    corr_name = ('Wait.Model(task_wait/pilot_wait/wait_tasks/wait_pilots) vs Task.wait/Pilot.wait/'
                 'TaskManager.wait_tasks/PilotManager.wait_pilots under a virtual clock')
    rule = ('corpus; exhaustive: requested sets (none/empty/one/several) x trajectories of length <= 3 (quick) or '
            '<= 4 (thorough) over 6 representative states x timeouts {None,0,1,3,-1,-1/2 tick} for Task.wait and Pilot.wait, and '
            'pairs of trajectories of length <= 2 x 3 requests x 3 uid forms x timeouts {None, negative (quick); None,0,-1,-1/2,2 (thorough)} for the manager calls; staggered sets of 2-3 '
            'entities that pass through the requested transient state at different ticks (delays x dwell x endings x '
            'every transient request); for wait_tasks, tasks that are already past the awaited transient state at the '
            'call or jump over it between two ticks and linger in a later non-final state; random '
            'mostly-monotone trajectories (stalls, gaps, wrong final state, never-final) for all four calls with '
            'uid forms None/[]/one/list/unknown, termination ticks, clock offsets; non-trivial = the call polls at '
            'least once (returns at tick >= 1 or spins) and the awaited entities change state at least once')
    trusted = [
        'translator translators/states.py (ast -> Gen/StatesTables.v: state names, _task_state_values, FINAL; fail closed)',
        'correspondence harness harness/c15.py: the real wait methods on objects built without __init__, the '
        '`time` name of each module replaced by a virtual clock (sleep(d) advances by exactly d and moves every '
        'entity along its trajectory; 1 tick = 0.1 s), `_terminate` replaced by a clock-driven flag; timeouts are '
        'passed exactly (int seconds or Fraction; None, 0, negative, fractional, small, large); result '
        'compared inside Coq by vm_compute with the model',
        'modelled, not verified: reporter/log calls, locks; a state that is visible for less than one polling '
        'interval (0.1 s) is outside the statement; clause `timely` = (all awaited entities show a requested/final '
        'state at ticks k and k+1 => returned by k+1) and (every awaited entity HAS shown a requested/final state '
        'at some tick p0 <= j <= k, each at its own tick => returned by k+1; p0 = 1 for wait_tasks, which sleeps '
        'before its first look, else 0) and, for wait_tasks only, (every awaited task HAS REACHED a requested '
        'state: at some tick 1 <= j <= k it shows a requested state, a state with a value >= that of a requested '
        'state, or a final state => returned by k+1)',
    ]
    assumptions = ['requested states are names of states.py for the entity kind (others raise KeyError in '
                   'wait_tasks and are outside the model)',
                   'entities change state only between polls (the clock is virtual; real-time races between the '
                   'state update thread and the reads inside one poll are not modelled)',
                   '`Spins` = more than (longest trajectory + timeout + termination tick + %d) polls; the model '
                   'theorem C15_spins_is_forever shows that such a run never returns' % SLACK]

    # ------------------------------------------------------------------ cases
    def _rand_traj(self, rng, kind, allow_odd=True):
        S = TSTATES if kind == 'T' else PSTATES
        r = rng.random()
        i = rng.randrange(len(S)) if r < 0.8 else 0
        tr = []
        steps = rng.randint(0, 7)
        for _ in range(steps):
            tr.extend([S[i]] * rng.choice([1, 1, 1, 2, 3]))
            i += rng.choice([1, 1, 1, 2, 3])
            if i >= len(S):
                break
            if rng.random() < 0.12:                      # fails / is canceled on the way
                break
        if not tr:
            tr = [S[min(i, len(S) - 1)]]
        r = rng.random()
        if r < 0.75:
            tr.append(rng.choice(TFINAL))
            if tr[-1] == 'CANCELED' and rng.random() < 0.2:
                tr.append('DONE')                        # the execution won the race
        # else: stalls in a non-final state for ever
        if allow_odd and rng.random() < 0.06:            # unrealistic: arbitrary order
            tr = [rng.choice(S + TFINAL) for _ in range(rng.randint(1, 6))]
        if rng.random() < 0.1:
            tr = [rng.choice(TFINAL)] * rng.randint(1, 2)   # final from the start
        return tr

    def _rand_req(self, rng, kind, trajs):
        S = TSTATES if kind == 'T' else PSTATES
        seen = sorted(set(s for t in trajs for s in t))
        r = rng.random()
        if r < 0.2:
            return None
        if r < 0.25:
            return rng.choice([[], ''])
        pick = lambda: rng.choice(seen) if (seen and rng.random() < 0.6) else rng.choice(S + TFINAL)   # noqa
        if r < 0.6:
            return pick()
        return [pick() for _ in range(rng.randint(1, 3))]

    def _rand_common(self, rng):
        return dict(timeout=rng.choice([None, None, None, None, 0, 0, 1, 2, 3, 5, 10, 20, 20, 300,
                                        -1, -1, -30, -10, '-1/2', '3/2', '-7/3']),
                    term=rng.choice([None, None, None, None, 0, 1, 2, 4, 7]),
                    t0=rng.choice([0, 7, 1000, 123456]))

    def cases(self, rng, tier):
        # exhaustive small scope for the single-entity calls
        R = {'T': ['NEW', 'AGENT_EXECUTING', 'TMGR_STAGING_OUTPUT', 'DONE', 'FAILED', 'CANCELED'],
             'P': ['NEW', 'PMGR_LAUNCHING', 'PMGR_ACTIVE', 'DONE', 'FAILED', 'CANCELED']}
        maxlen = 3 if tier == 'quick' else 4
        for fn, kind in (('task_wait', 'T'), ('pilot_wait', 'P')):
            reqs = [None, [], R[kind][1], 'DONE', 'FAILED', ['DONE'], [R[kind][2], 'CANCELED'], TFINAL]
            for n in range(1, maxlen + 1):
                for tr in itertools.product(R[kind], repeat=n):
                    for req in reqs:
                        for to in ([None, 0, 1, 3, -1, '-1/2'] if (n <= 2 or tier != 'quick') else [None, 2, -30]):
                            yield dict(fn=fn, traj=list(tr), req=req, timeout=to, term=None, t0=1000)
        # exhaustive small scope for the manager calls: 2 entities, short trajectories
        for fn, kind in (('wait_tasks', 'T'), ('wait_pilots', 'P')):
            S3 = [R[kind][0], R[kind][2], 'DONE', 'FAILED']
            trs = [list(t) for n in (1, 2) for t in itertools.product(S3, repeat=n)]
            if tier == 'quick':
                trs = trs[::3]
            for a in trs:
                for b in trs:
                    for req in (None, R[kind][2], ['DONE']):
                        for uids in (None, 1, [2, 1]):
                            # timeouts incl. the boundary values: 0 (= none) and negative (a used-up budget)
                            for to in ((None, -1) if tier == 'quick' else (None, 0, -1, '-1/2', 2)):
                                if tier == 'quick' and to == -1 and uids == 1:
                                    to = -30
                                yield dict(fn=fn, ents=[[1, a], [2, b]], uids=uids, req=req,
                                           timeout=to, term=None, t0=1000)
        # entities that pass THROUGH a requested transient state at different
        # ticks: entity i starts to move after delay d_i and stays `dwell` ticks
        # in every state; by the time the last one shows the requested state
        # the others have moved on (or have become final)
        for fn, kind in (('wait_tasks', 'T'), ('wait_pilots', 'P')):
            chain = ['NEW', 'TMGR_SCHEDULING', 'AGENT_EXECUTING', 'TMGR_STAGING_OUTPUT'] if kind == 'T' else PSTATES
            ends = [[], ['DONE'], ['FAILED']]
            delays = [(0, 1), (0, 2), (2, 0), (0, 3), (1, 0, 2)] if tier == 'quick' else \
                [d for n in (2, 3) for d in itertools.product(range(4), repeat=n) if len(set(d)) > 1]
            for ds in delays:
                for dwell in (1, 2):
                    for ei, end in enumerate(ends):
                        ents = []
                        for i, d in enumerate(ds):
                            tr = [chain[0]] * d
                            for st in chain:
                                tr.extend([st] * dwell)
                            # the other entities may end differently
                            ents.append([i + 1, tr + (end if i == 0 else ends[(ei + i) % 3])])
                        reqs = chain[1:-1] + [[chain[1], chain[2]]] if tier == 'quick' else \
                            chain[1:] + [[chain[1], chain[2]], [chain[2], 'CANCELED']]
                        for req in reqs:
                            for uids in ((None,) if tier == 'quick' else (None, [2, 1])):
                                yield dict(fn=fn, ents=ents, uids=uids, req=req, timeout=None, term=None, t0=7)
        # wait_tasks, "reached" reading: the awaited (transient, typically
        # *_PENDING) state is never SEEN by a poll -- the task is already past
        # it when the call begins, or jumps over it between two ticks -- and the
        # task lingers in a later non-final state (long-running task)
        for awaited, before, after in (('AGENT_EXECUTING_PENDING', 'AGENT_SCHEDULING', 'AGENT_EXECUTING'),
                                       ('TMGR_SCHEDULING_PENDING', 'NEW', 'TMGR_SCHEDULING'),
                                       ('AGENT_STAGING_OUTPUT_PENDING', 'AGENT_EXECUTING', 'TMGR_STAGING_OUTPUT')):
            past = [[after], [after, after, after], [after] * 4 + ['DONE']]
            jump = [[before] * d + [after] * 3 + end for d in (1, 2, 3) for end in ([], ['FAILED'])]
            seen = [[before, awaited, after, after]]
            single = past + jump
            pairs = [(a, b) for a in past[:2] + jump[:2] for b in jump[1:4] + seen]
            reqs = [awaited, [awaited], [awaited, 'DONE']] if tier != 'quick' else [awaited, [awaited, 'DONE']]
            for req in reqs:
                for tr in single:
                    for uids in (None, 1):
                        yield dict(fn='wait_tasks', ents=[[1, tr]], uids=uids, req=req, timeout=None, term=None, t0=7)
                    yield dict(fn='wait_tasks', ents=[[1, tr]], uids=[1], req=req, timeout=20, term=None, t0=1000)
                for a, b in pairs:
                    yield dict(fn='wait_tasks', ents=[[1, a], [2, b]], uids=None, req=req,
                               timeout=None, term=None, t0=7)
        n = 900 if tier == 'quick' else 12000
        for _ in range(n):
            fn = rng.choice(FNS)
            kind = 'T' if fn in TASK_FNS else 'P'
            c = dict(fn=fn, **self._rand_common(rng))
            if fn in ('task_wait', 'pilot_wait'):
                c['traj'] = self._rand_traj(rng, kind)
                c['req'] = self._rand_req(rng, kind, [c['traj']])
            else:
                ne = rng.choice([0, 1, 1, 2, 2, 3, 4])
                c['ents'] = [[u, self._rand_traj(rng, kind)] for u in range(1, ne + 1)]
                ids = [u for u, _ in c['ents']]
                r = rng.random()
                if r < 0.3 or not ids:
                    c['uids'] = rng.choice([None, None, []])
                elif r < 0.5:
                    c['uids'] = rng.choice(ids)
                else:
                    c['uids'] = [rng.choice(ids) for _ in range(rng.randint(1, len(ids)))] \
                        if rng.random() < 0.3 else rng.sample(ids, rng.randint(1, len(ids)))
                if rng.random() < 0.04:
                    c['uids'] = 9 if rng.random() < 0.5 else (ids + [9])
                c['req'] = self._rand_req(rng, kind, [t for _, t in c['ents']])
            yield c

    # ------------------------------------------------------------------ impl
    def impl_setup(self):
        self.rp = rp_import()

    def _uid(self, fn, u):
        return ('task.%06d' if fn in TASK_FNS else 'pilot.%04d') % u

    def run_impl(self, case):
        import radical.pilot.task as m_task
        import radical.pilot.pilot as m_pilot
        import radical.pilot.task_manager as m_tmgr
        import radical.pilot.pilot_manager as m_pmgr
        fn = case['fn']
        ents = []                                      # (object, trajectory)

        def on_tick(k):
            for o, tr in ents:
                o._state = at(tr, k)

        clock = Clock(case.get('t0', 0), budget_of(case), on_tick)
        term = Term(clock, case.get('term'))
        log = mock.MagicMock()
        mod = {'task_wait': m_task, 'pilot_wait': m_pilot, 'wait_tasks': m_tmgr, 'wait_pilots': m_pmgr}[fn]
        kw = dict(state=case['req'], timeout=timeout_arg(case.get('timeout')))

        def mk_task(mgr, u, tr):
            with mock.patch.object(m_task.Task, '__init__', return_value=None):
                t = m_task.Task()
            t._uid, t._state, t._log, t._tmgr = self._uid(fn, u), tr[0], log, mgr
            ents.append((t, tr))
            return t

        def mk_pilot(mgr, u, tr):
            with mock.patch.object(m_pilot.Pilot, '__init__', return_value=None):
                p = m_pilot.Pilot()
            p._uid, p._state, p._log, p._pmgr = self._uid(fn, u), tr[0], log, mgr
            ents.append((p, tr))
            return p

        if fn in TASK_FNS:
            with mock.patch.object(m_tmgr.TaskManager, '__init__', return_value=None):
                mgr = m_tmgr.TaskManager()
            mgr._tasks_lock, mgr._tasks = threading.RLock(), {}
        else:
            with mock.patch.object(m_pmgr.PilotManager, '__init__', return_value=None):
                mgr = m_pmgr.PilotManager()
            mgr._pilots_lock, mgr._pilots = threading.RLock(), {}
        mgr._uid, mgr._log, mgr._rep, mgr._terminate = 'mgr.0000', log, mock.MagicMock(), term

        if fn == 'task_wait':
            call = mk_task(mgr, 1, case['traj']).wait
        elif fn == 'pilot_wait':
            call = mk_pilot(mgr, 1, case['traj']).wait
        else:
            for u, tr in case['ents']:
                if fn == 'wait_tasks':
                    mgr._tasks[self._uid(fn, u)] = mk_task(mgr, u, tr)
                else:
                    mgr._pilots[self._uid(fn, u)] = mk_pilot(mgr, u, tr)
            uids = case['uids']
            if isinstance(uids, list):
                kw['uids'] = [self._uid(fn, u) for u in uids]
            elif uids is not None:
                kw['uids'] = self._uid(fn, uids)
            else:
                kw['uids'] = None
            call = mgr.wait_tasks if fn == 'wait_tasks' else mgr.wait_pilots

        with mock.patch.object(mod, 'time', clock):
            try:
                ret = call(**kw)
            except _Spin:
                return {'spins': True}
            except Exception as e:
                return {'exc': type(e).__name__}
        t = clock.tick()
        if clock.odd:
            return {'exc': 'OddSleep'}
        if ret is None or isinstance(ret, str):
            return {'ret': ret, 't': t}
        if isinstance(ret, list) and all(isinstance(x, str) for x in ret):
            return {'ret': list(ret), 't': t}
        return {'exc': 'OddReturn'}

    # ------------------------------------------------------------------ coq
    def _st(self, fn, s):
        return pfx(fn) + s

    def _req(self, fn, r):
        if r is None:
            return 'RNone'
        if isinstance(r, list):
            return '(RMany %s)' % L.lst([self._st(fn, s) for s in r])
        if r == '':
            return 'REmpty'
        return '(ROne %s)' % self._st(fn, r)

    def _traj(self, fn, tr):
        return '(%s, %s)' % (self._st(fn, tr[0]), L.lst([self._st(fn, s) for s in tr[1:]]))

    def _uids(self, u):
        if u is None:
            return 'UAll'
        if isinstance(u, list):
            return '(UMany %s)' % L.zlist(u)
        return '(UOne %s)' % L.Z(u)

    def _nat_opt(self, n):
        return 'None' if n is None else '(Some %s)' % L.nat(n)

    def _tmo(self, t):
        t = tmo_ticks(t)
        if t is None:
            return 'TNone'
        if t < 0:
            return 'TNeg'
        return '(TTicks %s)' % L.nat(math.ceil(t))      # the clock moves in whole ticks

    def _inp(self, case):
        fn = case['fn']
        common = '%s %s %s %s' % (self._req(fn, case['req']), self._tmo(case.get('timeout')),
                                  self._nat_opt(case.get('term')), L.nat(budget_of(case)))
        if 'traj' in case:
            return '%s %s' % (common, self._traj(fn, case['traj']))
        return '%s %s %s' % (common, L.lst([L.pair(L.Z(u), self._traj(fn, tr)) for u, tr in case['ents']]),
                             self._uids(case['uids']))

    def _obs(self, fn, obs):
        if obs.get('spins'):
            return 'Spins'
        if 'exc' in obs:
            e = obs['exc']
            return '(Raised %s)' % (e if e in ('KeyError', 'ValueError') else 'OtherError')
        r = obs['ret']
        if r is None:
            v = 'VNone'
        elif isinstance(r, list):
            v = '(VList %s)' % L.lst([self._st(fn, s) for s in r])
        else:
            v = '(VOne %s)' % self._st(fn, r)
        return '(Returned %s %s)' % (v, L.nat(obs['t']))

    def coq_row(self, case, obs):
        fn = case['fn']
        return '(c15_%s_row %s %s)' % (fn, self._inp(case), self._obs(fn, obs))

    def model_show(self, case):
        return 'm_%s %s' % (case['fn'], self._inp(case))

    def nontrivial(self, case, obs):
        trs = [case['traj']] if 'traj' in case else [t for _, t in case['ents']]
        moved = any(len(set(t)) > 1 for t in trs)
        polled = obs.get('spins') or obs.get('t', 0) >= 1
        return bool(moved and polled)

    def signature(self, case, obs, clause):
        fn = case['fn']
        site = {'task_wait': 'Task.wait', 'pilot_wait': 'Pilot.wait', 'wait_tasks': 'TaskManager.wait_tasks',
                'wait_pilots': 'PilotManager.wait_pilots'}[fn]
        if obs.get('spins'):
            cond = 'spins'
        elif 'exc' in obs:
            cond = 'raises ' + obs['exc']
        else:
            cond = 'returns'
        return '%s:%s:%s' % (clause, site, cond)

    def shrink(self, case):
        for k in ('term', 'timeout'):
            if case.get(k) is not None:
                yield dict(case, **{k: None})
        if case.get('timeout') is not None and tmo_ticks(case['timeout']) < 0 and case['timeout'] != -1:
            yield dict(case, timeout=-1)
        if case.get('t0'):
            yield dict(case, t0=0)
        if 'traj' in case:
            tr = case['traj']
            for i in range(len(tr)):
                if len(tr) > 1:
                    yield dict(case, traj=tr[:i] + tr[i + 1:])
        else:
            es = case['ents']
            for i in range(len(es)):
                rest = es[:i] + es[i + 1:]
                ids = [u for u, _ in rest]
                u = case['uids']
                if isinstance(u, list):
                    u2 = [x for x in u if x in ids]
                    if not u2:
                        continue
                elif u is not None and u not in ids:
                    continue
                else:
                    u2 = u
                yield dict(case, ents=rest, uids=u2)
            for i, (u, tr) in enumerate(es):
                for j in range(len(tr)):
                    if len(tr) > 1:
                        yield dict(case, ents=es[:i] + [[u, tr[:j] + tr[j + 1:]]] + es[i + 1:])
            if isinstance(case['uids'], list) and len(case['uids']) > 1:
                for i in range(len(case['uids'])):
                    yield dict(case, uids=case['uids'][:i] + case['uids'][i + 1:])
        if isinstance(case['req'], list) and len(case['req']) > 1:
            for i in range(len(case['req'])):
                yield dict(case, req=case['req'][:i] + case['req'][i + 1:])

    def distribution(self, results):
        d = {'fn': {}, 'outcome': {}, 'req': {}, 'timeout': {}, 'entities': {}}

        def inc(k, v):
            d[k][str(v)] = d[k].get(str(v), 0) + 1
        for r in results:
            c, o = r['case'], r['obs'] or {}
            inc('fn', c['fn'])
            inc('outcome', 'spins' if o.get('spins') else ('raises' if 'exc' in o else 'returns'))
            inc('req', 'default' if not c['req'] else ('one' if isinstance(c['req'], str) else 'list'))
            t = tmo_ticks(c.get('timeout'))
            inc('timeout', 'none' if t is None else ('zero' if t == 0 else ('negative' if t < 0 else 'positive')))
            inc('entities', 1 if 'traj' in c else len(c['ents']))
        return d


class C15(Sides, C15Wait):
    # waiting can only return when the client's Task objects reach the states that were reported: the client's
    # handling of notification batches in any delivery order (the C06 check) is part of what C15 promises
    side_specs = [Spec('client', 'c06', ['progression', 'final_state_consistent', 'no_exception']),
                  # ... and the pilot objects theirs (the C14 check, incl. two notifications handled at once)
                  Spec('pilot', 'c14', ['progression', 'final_state_consistent', 'no_unexpected_exception'],
                       only=lambda c: not (isinstance(c, dict) and c.get('kind') == 'launch'))]
    clauses = C15Wait.clauses + side_specs[0].clause_names() + side_specs[1].clause_names()
    extra_targets = C15Wait.extra_targets + ['States/Oracle.vo', 'AgentCause/Model.vo']
    model_targets = C15Wait.model_targets + ['States/Oracle.vo', 'AgentCause/Model.vo']


PROP = C15()
