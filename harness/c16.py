"""C16 -- client and agents exchange each forwarded message exactly once.

Implementation under test (real code from REPO): Session.__init__ (module name
from RP_PILOT_ID), Session._init_primary / _init_agent_0 (that they crosswire),
Session._publish_cfg (proxy channels into the registry), Session._crosswire_proxy,
Session.crosswire_pubsub and its closure pubsub_fwd; BaseComponent.publish /
register_publisher / register_subscriber; ClientComponent.advance /
AgentComponent.advance (fwd defaults); the typed messages of messages.py.

Replaced by the harness: zmq.  `ru.zmq.Publisher` / `ru.zmq.Subscriber` are
in-memory classes on a network of named bridges; a message is serialised with
ru's own to_msgpack on `put` and deserialised once per subscriber socket with
from_msgpack + as_string (exactly what the real classes do), topics are matched
by byte prefix as zmq does, callback exceptions are swallowed and counted as
the real listener thread does.  The network transports one pending publication
at a time, chosen by the case's schedule, and stops at a hard bound so that a
circulating implementation terminates.

Life-cycle cases (kind 'life'): sequences of connect / round / close events of the
client (side 0, owner of the session id) and pilots.  Real code driven in
addition: Session._start_proxy (environment / embedded proxy via _run_proxy),
Session._connect_proxy, Session.close(); Proxy.__init__ (request table),
Proxy._register / _worker / _lookup / _unregister / stop.  Replaced: ru.zmq.Client
(synchronous dispatch into the real Proxy's request table), ru.zmq.Server
(__init__/start/wait), ru.zmq.PubSub / Queue (in-memory bridges whose stop()
disposes what they hold), multiprocessing in proxy.py (the worker runs in a
thread), the component manager (closing it ends the side's components and
local bridges).  After close() the side's process is considered gone.

Naming of the sides: the model identifies sides abstractly and origin markers
are compared for equality of side ids.  Every case carries a naming scheme
('names'): the standard one (client, pilot.0000, ...) or one in which ids
contain one another (p1/p10/p100, gpu/gpu.big, pilot.1000/pilot.10000 after the
counter overflow, ids containing 'client' or contained in it, suffixes); the
expectation is the same under every scheme.

Fault cases (kind 'fault'): a fault schedule names, per crosswire (side,
direction, channel), the calls of publisher.put on that crosswire's publisher
(1st, 2nd, ...) that raise; the in-memory publisher counts the calls made by the
publisher object created inside Session.crosswire_pubsub and raises accordingly;
the exception leaves the real pubsub_fwd and is swallowed and counted by the
network exactly where ru's Subscriber._listener logs 'callback error'.  The
harness records (crosswire, message id) of every raising put."""
import itertools
import os
import sys
import threading
from unittest import mock

from . import coqlit as L
from .core import Prop, rp_import

CHANS = ['control_pubsub', 'state_pubsub']
MTYPES = {'rpc_req': 'RpcReq', 'rpc_res': 'RpcRes', 'component_start': 'CompStart', 'rp_msg': 'BaseMsg'}
ADV_STATES = [None, 'AGENT_EXECUTING', 'FAILED', 'DONE']


# How the sides are called.  The model identifies sides abstractly (side k); origin markers are compared
# for EQUALITY of side ids.  The client's module name is 'client' (no RP_PILOT_ID), a pilot's is its pilot id --
# generated ('pilot.%04d') or chosen by the user.  Every scheme is injective; all but 'std' contain ids that
# are substrings / prefixes / suffixes of other ids (also of ids of sides that are not connected).
_SUBCLIENT = ['clien', 'lient', 'clie', 'lien', 'ient', 'cli', 'lie', 'ien', 'ent', 'cl', 'li', 'ie', 'en', 'nt',
              'c', 'l', 'i', 'e', 'n', 't']
SCHEMES = {
    'std'        : lambda k: 'pilot.%04d' % (k - 1),
    'prefix'     : lambda k: 'p1' + '0' * (k - 1),                  # p1, p10, p100, ...
    'dotted'     : lambda k: 'gpu' + '.big' * (k - 1),              # gpu, gpu.big, gpu.big.big, ...
    'overflow'   : lambda k: 'pilot.1' + '0' * (k + 2),             # pilot.1000, pilot.10000, ... (%04d overflows)
    'superclient': lambda k: 'client' + '.x' * k,                   # ids that contain 'client'
    'subclient'  : lambda k: _SUBCLIENT[k - 1] if k <= len(_SUBCLIENT) else 'zz%d' % k,   # ids contained in 'client'
    'suffix'     : lambda k: 'x' * (k - 1) + 'node',                # node, xnode, xxnode, ...
}
SCHEME = 'std'
_INV = {}


def set_scheme(name):
    global SCHEME
    if name not in SCHEMES:
        raise ValueError('unknown naming scheme %r' % (name,))
    SCHEME = name


def modname(k):
    return 'client' if k == 0 else SCHEMES[SCHEME](k)


def modcode(name):
    inv = _INV.get(SCHEME)
    if inv is None:
        inv = {('client' if k == 0 else SCHEMES[SCHEME](k)): k for k in range(64)}
        assert len(inv) == 64, 'naming scheme %s is not injective' % SCHEME
        _INV[SCHEME] = inv
    if name not in inv:
        raise ValueError('origin marker is not a module name: %r' % (name,))
    return inv[name]


# ------------------------------------------------------------------------------
# in-memory zmq
#
class Net:
    def __init__(self):
        self.subs = {}        # bridge name -> [FakeSubscriber] in connection order
        self.pending = []     # [(bridge name, data bytes)]
        self.npub = 0
        self.errors = 0
        self.events = []
        self.dead = set()     # bridges that were stopped (what they held is gone)
        self.actor = None     # side whose code is running (connect / close)
        self.made = {}        # side -> [FakeSubscriber] it created
        self.servers = {}     # address -> request server (the proxy service)
        self.requests = []    # [side, request] as seen by the proxy service
        self.count = 0
        self.faults = {}      # crosswire (side, from_proxy, channel) -> set of put attempts that raise
        self.failures = []    # [side, from_proxy, channel, message id] of every put that raised

    def fresh(self):
        self.count += 1
        return self.count

    def kill(self, bridge):
        self.dead.add(bridge)
        self.pending = [x for x in self.pending if x[0] != bridge]

    def exit_side(self, k):
        """the process of side k ends: none of its sockets receives any more"""
        for sub in self.made.get(k, []):
            sub._stopped = True

    def run_round(self, bound, sched):
        i = 0
        while self.pending and i < bound:
            k = sched[i] if i < len(sched) else 0
            i += 1
            bridge, data = self.pending.pop(k % len(self.pending))
            self.npub += 1
            self.deliver(bridge, data)

    def deliver(self, bridge, data):
        import radical.utils as ru
        from radical.utils.serialize import from_msgpack
        for sub in list(self.subs.get(bridge, [])):
            if sub._stopped:
                continue
            if not any(data.startswith(ru.as_bytes(t)) for t in sub._topics):
                continue
            topic, bmsg = data.split(b' ', 1)
            msg = ru.as_string(from_msgpack(bmsg))           # once per socket
            topic = ru.as_string(topic)
            for cb, lock in list(sub._callbacks):
                try:
                    if lock:
                        with lock:
                            cb(topic, msg)
                    else:
                        cb(topic, msg)
                except Exception:                            # listener: log.exception('callback error')
                    self.errors += 1

    def run(self, bound, sched):
        i = 0
        while self.pending and self.npub < bound:
            k = sched[i] if i < len(sched) else 0
            i += 1
            bridge, data = self.pending.pop(k % len(self.pending))
            self.npub += 1
            self.deliver(bridge, data)


NET = None


def _bridge(url, kind):
    pre = 'mem://%s/' % kind
    if not isinstance(url, str) or not url.startswith(pre):
        raise AssertionError('%s socket connected to %r' % (kind, url))
    return url[len(pre):]


class FakePublisher:
    def __init__(self, channel, url=None, log=None, prof=None, path=None):
        self._channel = channel
        self._url = url
        self._bridge = _bridge(url, 'pub')
        # is this the publisher of a crosswire (created inside Session.crosswire_pubsub)?  Then its
        # put() calls are the hand-over attempts of that crosswire: (side, from_proxy, channel)
        self._wire = None
        self._attempts = 0
        fr = sys._getframe(1)
        if fr.f_code.co_name == 'crosswire_pubsub' and isinstance(NET.actor, int):
            src = str(fr.f_locals.get('src', ''))
            ch = 0 if 'control' in src else 1
            self._wire = (NET.actor, 1 if fr.f_locals.get('from_proxy') else 0, ch)

    channel = property(lambda self: self._channel)

    def put(self, topic, msg):
        import radical.utils as ru
        from radical.utils.serialize import to_msgpack
        assert isinstance(topic, str), 'invalid topic type'
        if self._wire is not None:
            self._attempts += 1
            if self._attempts in NET.faults.get(self._wire, ()):
                NET.failures.append(list(self._wire) + [C16._msg_id(msg)])
                raise RuntimeError('zmq: put failed (injected fault, attempt %d)' % self._attempts)
        data = ru.as_bytes(topic.replace(' ', '_')) + b' ' + to_msgpack(msg)
        if self._bridge in NET.dead:           # nobody there any more
            return
        NET.pending.append((self._bridge, data))


class FakeSubscriber:
    def __init__(self, channel, url=None, topic=None, cb=None, log=None, prof=None, path=None):
        import radical.utils as ru
        self._channel = channel
        self._bridge = _bridge(url, 'sub')
        self._topics = []
        self._callbacks = []
        self._stopped = False
        NET.subs.setdefault(self._bridge, []).append(self)
        NET.made.setdefault(NET.actor, []).append(self)
        for t in ru.as_list(topic):
            self.subscribe(t, cb)

    channel = property(lambda self: self._channel)

    def subscribe(self, topic, cb=None, lock=None):
        if cb:
            self._callbacks.append([cb, lock])
        topic = str(topic).replace(' ', '_')
        if topic not in self._topics:
            self._topics.append(topic)

    def unsubscribe(self, cb):
        for _cb, _lock in self._callbacks:
            if cb == _cb:
                self._callbacks.remove([_cb, _lock])
                break

    def stop(self):
        self._stopped = True



# ------------------------------------------------------------------------------
# in-memory stand-ins for the proxy service plumbing (life-cycle cases)
#
class FakeBridge:
    """ru.zmq.PubSub / ru.zmq.Queue: a named bridge of NET; stop() disposes what it holds"""

    def __init__(self, channel, cfg=None, log=None):
        self._net = NET
        self._name = '%s.%d' % (channel, NET.fresh())

    def start(self):
        self._net.subs.setdefault(self._name, [])

    def stop(self):
        self._net.kill(self._name)

    addr_pub = property(lambda self: 'mem://pub/' + self._name)
    addr_sub = property(lambda self: 'mem://sub/' + self._name)
    addr_put = property(lambda self: 'mem://put/' + self._name)
    addr_get = property(lambda self: 'mem://get/' + self._name)


class FakeProcess:
    """mp.Process for Proxy._register: runs the real Proxy._worker in a thread"""

    def __init__(self, target=None, args=()):
        self._t = threading.Thread(target=target, args=args, daemon=True)

    def start(self):
        self._t.start()

    def join(self, timeout=None):
        self._t.join(10)
        if self._t.is_alive():
            raise RuntimeError('proxy worker did not end')

    def terminate(self):
        pass


class NoThread:
    def __init__(self, *a, **k):
        self.daemon = True

    def start(self):
        pass


class FakeClient:
    """ru.zmq.Client: synchronous requests to a server of NET, dispatched like Server._work"""

    def __init__(self, server=None, url=None, log=None):
        if not url:
            raise ValueError('need server name/cfg or Url')
        self._url = url
        self._closed = False

    url = property(lambda self: self._url)

    def request(self, cmd, *args, **kwargs):
        if self._closed:
            raise RuntimeError('client closed')
        if cmd not in ('register', 'lookup', 'unregister'):
            raise AssertionError('unexpected proxy request %r' % cmd)
        NET.requests.append([NET.actor, cmd])
        srv = NET.servers.get(self._url)
        if srv is None or srv._term.is_set():
            raise RuntimeError('ERROR: no proxy service at %s' % self._url)
        if cmd not in srv._cbs:
            raise RuntimeError('ERROR: no command %s' % cmd)
        try:
            return srv._cbs[cmd](*args, **kwargs)
        except Exception as e:
            raise RuntimeError('ERROR: %s' % e)

    def close(self):
        self._closed = True


def _server_init(self, url=None, uid=None, path=None):
    self._url, self._uid, self._path = url, uid, path or './'
    self._cbs = {}
    self._log = self._prof = mock.MagicMock()
    self._addr = None
    self._thread = None
    self._up = threading.Event()
    self._term = threading.Event()


def _server_start(self):
    self._addr = 'mem://proxy/%d' % NET.fresh()
    NET.servers[self._addr] = self
    self._thread = True
    self._up.set()


def _server_wait(self):
    if self._thread:
        self._term.wait()


class _FakeMP:
    Queue = staticmethod(lambda: __import__('queue').Queue())
    Event = staticmethod(threading.Event)
    Process = FakeProcess


class _FakeMT:
    Lock = staticmethod(threading.Lock)
    Event = staticmethod(threading.Event)
    Thread = NoThread


class Cmgr:
    """what the component manager of a side does on close(): its components and local bridges end"""

    def __init__(self, comp, bridges):
        self.comp, self.bridges = comp, bridges

    def close(self):
        self.comp.close()
        for b in self.bridges:
            NET.kill(b)


class Reg(dict):
    """registry stand-in: nested dict with dotted-key access (ru.zmq.RegistryClient)"""

    def _walk(self, key, create):
        parts = key.split('.')
        d = self
        for p in parts[:-1]:
            nxt = dict.get(d, p)
            if not isinstance(nxt, dict):
                if not create:
                    raise KeyError(key)
                nxt = {}
                dict.__setitem__(d, p, nxt)
            d = nxt
        return d, parts[-1]

    def __getitem__(self, key):
        d, k = self._walk(key, False)
        return dict.__getitem__(d, k)

    def __setitem__(self, key, val):
        if hasattr(val, 'as_dict'):          # the registry stores plain (serialised) data
            val = val.as_dict()
        d, k = self._walk(key, True)
        dict.__setitem__(d, k, val)

    def dump(self, name=None):
        pass

    def close(self):
        pass


# ------------------------------------------------------------------------------
def fwd_lit(f):
    return L.opt(None if f is None else L.boolean(f))


def org_lit(o):
    return L.opt(None if o is None else L.nat(o))


def chan_lit(c):
    return 'Control' if c == 0 else 'State'


def post_lit(p):
    if p['via'] == 'raw':
        src = '(Raw %s %s)' % (org_lit(p['origin']), fwd_lit(p['fwd']))
    elif p['via'] == 'advance':
        src = '(Advance %s)' % fwd_lit(p['fwd'])
    else:
        src = '(Typed %s %s)' % (MTYPES[p['mtype']], fwd_lit(p['fwd']))
    return '(%s, %s, %s)' % (L.nat(p['at']), chan_lit(p['ch']), src)


def ev_lit(e):
    return '(mkev %s %s %s %s %s)' % (L.nat(e[0]), chan_lit(e[1]), L.nat(e[2]), org_lit(e[3]), fwd_lit(e[4]))


def msg_lit(i, o, f):
    return '(mkmsg %s %s %s)' % (L.nat(i), org_lit(o), fwd_lit(f))


def op_lit(op):
    if op[0] == 'connect':
        return '(Connect %s)' % L.nat(op[1])
    if op[0] == 'close':
        return '(Close %s)' % L.nat(op[1])
    return '(Round %s %s)' % (L.lst([post_lit(p) for p in op[1]]), L.lst([L.nat(k) for k in op[2]]))


def ops_lit(case):
    return L.lst([op_lit(o) for o in case['ops']])


REQ = ['Register', 'Lookup', 'Unregister']


def wkey_lit(a, f, c):
    return '(%s, %s, %s)' % (L.nat(a), L.boolean(bool(f)), chan_lit(c))


def faults_lit(case):
    return L.lst(['(%s, %s)' % (wkey_lit(a, f, c), L.lst([L.nat(k) for k in ns])) for a, f, c, ns in case['faults']])


def fault_args(case):
    return '%s %s %s %s' % (faults_lit(case), L.nat(case['n']), L.lst([post_lit(p) for p in case['posts']]),
                            L.lst([L.nat(k) for k in case['sched']]))


class C16(Prop):
    id = 'C16'
    module = 'c16'
    title = 'Client and agents exchange each forwarded message exactly once'
    props_files = ['Props/C16.v']
    extra_targets = ['Fwd/Oracle.vo', 'Fwd/LifeOracle.vo', 'Fwd/FaultOracle.vo']
    model_targets = ['Fwd/Oracle.vo', 'Fwd/LifeOracle.vo', 'Fwd/FaultOracle.vo']
    translators = []
    header = 'From RP Require Import Fwd.Model Fwd.Oracle Fwd.Life Fwd.LifeOracle Fwd.Fault Fwd.FaultOracle.'
    clauses = ['exactly_once', 'not_back_to_origin', 'unflagged_stays_local', 'no_stray_delivery', 'no_circulation',
               'only_owner_unregisters', 'at_most_once_under_faults']
    corr_name = ('Fwd.Model(network/pubsub_fwd/crosswire_proxy/source_msg) + Fwd.Life(life_run: connect/close/round) vs '
                 'Session.crosswire_pubsub/_crosswire_proxy/_publish_cfg/__init__/_start_proxy/_connect_proxy/close + '
                 'Proxy._register/_lookup/_unregister + Client/AgentComponent.advance/publish on an in-memory pubsub network')
    rule = ('corpus; every (module, from_proxy, origin, fwd) input of the real pubsub_fwd closures; every single post '
            '(side, channel, origin marker in {absent, own, other side, unknown}, fwd in {absent, False, True}, plus '
            'advance() and typed messages with default/explicit fwd) on networks of 1 client + 0..3 pilots; random '
            'batches of 1-5 posts on 0..6 pilots (thorough: ..12, all ordered pairs of raw posts on 2 pilots) under a '
            'seed-determined transport schedule; life cycles: client + 2 pilots with every order of the three closes and '
            'messages in between (external and embedded proxy), pilots that come too early / restart / come after the '
            'client closed, 150 (thorough 2500) random histories of connect / close / round events over up to 4 (6) '
            'pilots; failing hand-overs: five flagged messages over one crosswire with a sample (thorough: all 31 non-empty '
            'subsets) of failing attempts among the first five, both directions, plus 120 (thorough 2500) random message '
            'batches with random fault schedules on up to three crosswires; non-trivial = a network with >= 1 pilot in which some message was delivered on a side other than '
            'the one it was posted on (life cycles: such a message posted after some pilot has closed; faults: some '
            'hand-over failed and some message still crossed)')
    trusted = [
        'correspondence harness harness/c16.py: real Session.__init__/_init_primary/_init_agent_0/_publish_cfg/'
        '_crosswire_proxy/crosswire_pubsub and real Client/AgentComponent.advance/publish/register_* driven on stub '
        'sessions (config, registry, proxy registration, component start patched out); ru.zmq.Publisher/Subscriber '
        'replaced by an in-memory network that serialises with ru to_msgpack/from_msgpack per subscriber socket, '
        'matches topics by prefix and swallows callback exceptions like the listener thread; compared inside Coq',
        'life-cycle cases: real Session._start_proxy/_run_proxy/_connect_proxy/close and real Proxy.__init__/_register/'
        '_worker/_lookup/_unregister/stop; ru.zmq.Client/Server/PubSub/Queue and multiprocessing replaced by in-memory '
        'stand-ins (synchronous request dispatch into the real request table, bridges whose stop() disposes what they '
        'hold, worker in a thread), the component manager replaced by one that ends the side\'s components and local '
        'bridges; a closed side\'s process is considered gone',
        'fault cases: publisher.put of a crosswire raises on scheduled attempts (in-memory publisher); the exception is '
        'swallowed where ru.zmq.Subscriber._listener swallows it',
        'modelled, not verified: zmq delivery and ordering, the real zmq bridges of the proxy and its monitor thread / '
        'heartbeat timeout, messages in flight while a session closes (life-cycle events happen at silent moments), '
        'the task queues crosswired by the task manager, the contents of messages other than origin/fwd',
    ]
    assumptions = ['module names (client, pilot ids) are pairwise distinct (they may contain one another)',
                   'every connected side runs _crosswire_proxy exactly once against the same proxy channels',
                   'one client session per session id; sessions connect and close while no message is in flight',
                   'the proxy does not time the session out (heartbeats arrive)',
                   'zmq delivers every publication to every connected subscriber exactly once']
    widen_cases = 1500
    impl_timeout = 240          # a mutant that loops inside a callback must not stall the check

    # ------------------------------------------------------------------ cases
    def _rand_post(self, rng, n):
        at = rng.randint(0, n)
        r = rng.random()
        if r < 0.6:
            o = rng.random()
            if o < 0.5:
                origin = None
            elif o < 0.7:
                origin = at
            elif o < 0.9:
                origin = rng.randint(0, n)
            else:
                origin = n + 1 + rng.randint(0, 1)
            fwd = rng.choice([True, True, False, None])
            return {'at': at, 'ch': rng.randint(0, 1), 'via': 'raw', 'origin': origin, 'fwd': fwd}
        if r < 0.85:
            return {'at': at, 'ch': 1, 'via': 'advance', 'fwd': rng.choice([None, None, True, False]),
                    'state': rng.choice(ADV_STATES)}
        return {'at': at, 'ch': 0, 'via': 'typed', 'mtype': rng.choice(sorted(MTYPES)),
                'fwd': rng.choice([None, None, True, False])}

    def _single_posts(self, n):
        for at in range(n + 1):
            origins = [None, at, n + 1] + ([(at + 1) % (n + 1)] if n >= 1 else [])
            for ch in (0, 1):
                for o in origins:
                    for f in (None, False, True):
                        yield {'at': at, 'ch': ch, 'via': 'raw', 'origin': o, 'fwd': f}
            for f in (None, False, True):
                for st in ADV_STATES:
                    yield {'at': at, 'ch': 1, 'via': 'advance', 'fwd': f, 'state': st}
                for mt in sorted(MTYPES):
                    yield {'at': at, 'ch': 0, 'via': 'typed', 'mtype': mt, 'fwd': f}

    def cases(self, rng, tier):
        """every case kind under the standard naming of sides and under namings in which ids contain one another"""
        odd = [k for k in SCHEMES if k != 'std']
        rng2 = __import__('random').Random(rng.random())
        nfwd = nsingle = 0
        for c in self._cases(rng, tier):
            yield c
            small = (c['kind'] == 'fwd') or (c['kind'] == 'net' and c['sched'] == [] and len(c['posts']) == 1
                                             and 1 <= c['n'] <= 2 and c['posts'][0]['via'] == 'raw')
            if small:
                # the exhaustive small sets: again under every other naming
                for k in odd:
                    yield dict(c, names=k)
            elif rng2.random() < (0.5 if tier == 'quick' else 0.8):
                yield dict(c, names=rng2.choice(odd))

    def _cases(self, rng, tier):
        for me in (0, 1, 2):
            for fp in (False, True):
                for o in (None, me, (me + 1) % 3, 7):
                    for f in (None, False, True):
                        yield {'kind': 'fwd', 'me': me, 'fp': fp, 'origin': o, 'fwd': f}
        for n in ((0, 1, 2, 3) if tier == 'quick' else (0, 1, 2, 3, 4, 5)):
            for p in self._single_posts(n):
                yield {'kind': 'net', 'n': n, 'posts': [p], 'sched': []}
        nr = 400 if tier == 'quick' else 4000
        nmax = 6 if tier == 'quick' else 12
        for _ in range(nr):
            n = rng.randint(0, nmax) if rng.random() < 0.9 else rng.randint(0, 2)
            k = rng.randint(1, 5)
            posts = [self._rand_post(rng, n) for _ in range(k)]
            sched = [rng.randint(0, 11) for _ in range(rng.randint(0, k * (n + 3)))]
            yield {'kind': 'net', 'n': n, 'posts': posts, 'sched': sched}
        yield from self._life_cases(rng, tier)
        yield from self._fault_cases(rng, tier)
        if tier == 'thorough':
            raws = [p for p in self._single_posts(2) if p['via'] == 'raw' and p['ch'] == 0]
            for a, b in itertools.product(raws, repeat=2):
                for sched in ([], [1, 0, 2, 1, 3]):
                    yield {'kind': 'net', 'n': 2, 'posts': [a, b], 'sched': sched}

    def _fault_cases(self, rng, tier):
        def P(at, ch, fwd=True):
            return {'at': at, 'ch': ch, 'via': 'raw', 'origin': None, 'fwd': fwd}
        if tier == 'quick':
            subsets = [[1], [2], [3], [1, 2], [2, 3], [1, 3], [2, 4], [1, 4], [3, 5], [1, 3, 5], [2, 3, 4], [1, 2, 3, 4, 5]]
        else:
            subsets = [[k + 1 for k in range(5) if (m >> k) & 1] for m in range(1, 32)]
        # five flagged messages over ONE crosswire, every pattern of failing hand-over attempts, both directions
        for n, s0, ch in ((1, 0, 0), (2, 1, 1)):
            posts = [P(s0, ch) for _ in range(5)]
            rcv = 1 if s0 == 0 else 0
            for ns in subsets:
                yield {'kind': 'fault', 'n': n, 'posts': posts, 'sched': [], 'faults': [[s0, 0, ch, ns]]}
                yield {'kind': 'fault', 'n': n, 'posts': posts, 'sched': [], 'faults': [[rcv, 1, ch, ns]]}
            if tier != 'quick':
                for ns in subsets:
                    yield {'kind': 'fault', 'n': n, 'posts': posts, 'sched': [3, 1, 4, 1, 5, 9, 2, 6],
                           'faults': [[s0, 0, ch, ns], [rcv, 1, ch, ns[::-1][:2]]]}
        # random messages, random faults
        for _ in range(120 if tier == 'quick' else 2500):
            n = rng.randint(1, 4)
            k = rng.randint(2, 6)
            hot = rng.randint(0, n)
            posts = []
            for _j in range(k):
                p = self._rand_post(rng, n)
                if rng.random() < 0.6:
                    p = P(hot, rng.randint(0, 1), rng.random() < 0.85)
                posts.append(p)
            faults, seen = [], set()
            for _j in range(rng.randint(1, 3)):
                key = (rng.randint(0, n) if rng.random() < 0.5 else hot, rng.randint(0, 1), rng.randint(0, 1))
                if key in seen:
                    continue
                seen.add(key)
                faults.append(list(key) + [sorted(rng.sample(range(1, 7), rng.randint(1, 3)))])
            sched = [rng.randint(0, 9) for _ in range(rng.randint(0, k * (n + 3)))]
            yield {'kind': 'fault', 'n': n, 'posts': posts, 'sched': sched, 'faults': faults}

    def _life_cases(self, rng, tier):
        def P(at, fwd=True, ch=0):
            return {'at': at, 'ch': ch, 'via': 'raw', 'origin': None, 'fwd': fwd}

        def msgs(live):
            # one flagged message from every live side, a state advance of the last pilot, an unflagged one
            ps = [P(s, True, s % 2) for s in live]
            if live and live[-1] != 0:
                ps.append({'at': live[-1], 'ch': 1, 'via': 'advance', 'fwd': None, 'state': None})
            if live:
                ps.append(P(live[0], False))
            return ps
        # client, two pilots, every order of the three closes, messages in between
        for emb in (False, True):
            for order in itertools.permutations([0, 1, 2]):
                live = [0, 1, 2]
                ops = [['connect', 0], ['connect', 1], ['connect', 2], ['round', msgs(live), []]]
                for k in order:
                    ops.append(['close', k])
                    live = [x for x in live if x != k]
                    ops.append(['round', msgs(live), [1, 0, 2]])
                yield {'kind': 'life', 'embedded': emb, 'ops': ops}
        # a pilot that starts after another one has finished; pilots that come too early / too late
        yield {'kind': 'life', 'embedded': False, 'ops': [
            ['connect', 1], ['connect', 0], ['connect', 1], ['round', msgs([0, 1]), []], ['close', 1],
            ['connect', 2], ['round', msgs([0, 2]), []], ['connect', 1], ['round', msgs([0, 2, 1]), [2, 2]],
            ['close', 0], ['connect', 3], ['round', msgs([2, 1]), []], ['connect', 0]]}
        nr = 150 if tier == 'quick' else 2500
        for _ in range(nr):
            m = rng.randint(1, 4 if tier == 'quick' else 6)
            live, ops, done = [], [], False
            if rng.random() < 0.92:
                ops.append(['connect', 0])
                live.append(0)
            for _k in range(rng.randint(3, 11)):
                r = rng.random()
                cand = [s for s in range(m + 1) if s not in live]
                if r < 0.28 and cand:
                    s = rng.choice(cand)
                    ops.append(['connect', s])
                    if (s == 0 and not done) or (s != 0 and 0 in live):
                        live.append(s)
                elif r < 0.48 and live:
                    pil = [s for s in live if s != 0]
                    s = rng.choice(pil) if pil and rng.random() < 0.85 else rng.choice(live)
                    ops.append(['close', s])
                    live.remove(s)
                    done = done or s == 0
                else:
                    posts = []
                    for _j in range(rng.randint(1, 3)):
                        p = self._rand_post(rng, m)
                        if live and rng.random() < 0.9:
                            p['at'] = rng.choice(live)
                            if p['via'] == 'raw' and p['origin'] is not None and rng.random() < 0.5:
                                p['origin'] = p['at']
                        posts.append(p)
                    sched = [rng.randint(0, 7) for _ in range(rng.randint(0, 6))]
                    ops.append(['round', posts, sched])
            yield {'kind': 'life', 'embedded': rng.random() < 0.5 and ops[0] == ['connect', 0], 'ops': ops}

    # ------------------------------------------------------------------ impl
    def impl_setup(self):
        self.rp = rp_import()
        import radical.utils as ru
        import radical.pilot.constants as rpc
        assert rpc.CONTROL_PUBSUB == CHANS[0] and rpc.STATE_PUBSUB == CHANS[1]
        names = [rpc.CONTROL_PUBSUB, rpc.STATE_PUBSUB, rpc.PROXY_CONTROL_PUBSUB, rpc.PROXY_STATE_PUBSUB]
        # the model matches topics by equality: no pubsub name may be a prefix of another
        for a in names:
            for b in names:
                assert a == b or not b.startswith(a), (a, b)
        self.ru = ru
        self.rpc = rpc
        self.quiet = mock.MagicMock()

    def _session(self, k):
        """A real Session for side k (0: primary/client, k>=1: agent_0 of pilot k) on NET."""
        from radical.pilot.session import Session
        ru = self.ru
        quiet = self.quiet
        name = modname(k)

        def init_cfg(s):
            s._cfg = ru.Config(from_dict={'path': os.getcwd(), 'bridges': {}, 'components': {}})
            s._rcfg, s._rcfgs = {}, {}
            s._log = s._prof = s._rep = quiet

        def connect_registry(s):
            s._reg = Reg()

        def proxy(s):
            # what proxy.py hands out on 'register' / 'lookup'
            s._proxy_cfg = {
                'proxy_control_pubsub': {'addr_pub': 'mem://pub/proxy/control', 'addr_sub': 'mem://sub/proxy/control'},
                'proxy_state_pubsub'  : {'addr_pub': 'mem://pub/proxy/state', 'addr_sub': 'mem://sub/proxy/state'},
                'proxy_task_queue'    : {'addr_put': 'mem://put/proxy/tq', 'addr_get': 'mem://get/proxy/tq'}}

        def start_components(s):
            # the local bridges put their addresses into the registry
            for c in CHANS:
                s._reg['bridges.%s' % c] = {'addr_pub': 'mem://pub/%s/%s' % (name, c),
                                            'addr_sub': 'mem://sub/%s/%s' % (name, c)}

        env = {'RP_PILOT_ID': name} if k else {}
        with mock.patch.object(Session, '_init_cfg_from_scratch', init_cfg), \
             mock.patch.object(Session, '_init_cfg_from_dict', init_cfg), \
             mock.patch.object(Session, '_start_registry', lambda s: None), \
             mock.patch.object(Session, '_connect_registry', connect_registry), \
             mock.patch.object(Session, '_start_proxy', proxy), \
             mock.patch.object(Session, '_connect_proxy', proxy), \
             mock.patch.object(Session, '_init_rm', lambda s: None), \
             mock.patch.object(Session, '_start_components', start_components), \
             mock.patch.dict(os.environ, env):
            if not k:
                os.environ.pop('RP_PILOT_ID', None)
            return Session(uid='c16.session', cfg={}, _role=Session._AGENT_0 if k else Session._PRIMARY)

    def _component(self, k, session):
        """A real Client/AgentComponent of side k that records what its subscribers receive."""
        import radical.pilot.utils as rpu
        cls = rpu.AgentComponent if k else rpu.ClientComponent
        with mock.patch.object(cls, '__init__', return_value=None):
            comp = cls()
        comp._uid = 'c16.comp.%d' % k
        comp._reg = session._reg
        comp._log = comp._prof = self.quiet
        comp._publishers, comp._subscribers = {}, {}
        comp._cb_lock = threading.RLock()
        comp._term, comp._inputs = threading.Event(), {}
        for ch, name in enumerate(CHANS):
            comp.register_publisher(name)
            comp.register_subscriber(name, self._recorder(k, ch))
        return comp

    def _recorder(self, k, ch):
        def cb(topic, msg):
            NET.events.append([k, ch, self._msg_id(msg), self._origin(msg), self._fwd(msg)])
        return cb

    @staticmethod
    def _msg_id(msg):
        arg = msg.get('arg')
        if isinstance(arg, dict):
            return int(arg['id'])
        if isinstance(arg, list):
            return int(arg[0]['uid'].split('.')[1])
        return int(msg['uid'].split('.')[1])

    @staticmethod
    def _origin(msg):
        return modcode(msg['origin']) if 'origin' in msg else None

    @staticmethod
    def _fwd(msg):
        if 'fwd' not in msg:
            return None
        if not isinstance(msg['fwd'], bool):
            raise ValueError('fwd flag is not a bool: %r' % (msg['fwd'],))
        return msg['fwd']

    def _build(self, n):
        global NET
        NET = Net()
        ru = self.ru
        comps = []
        with mock.patch.object(ru.zmq, 'Publisher', FakePublisher), \
             mock.patch.object(ru.zmq, 'Subscriber', FakeSubscriber):
            for k in range(n + 1):
                NET.actor = k
                s = self._session(k)
                comps.append(self._component(k, s))
        NET.actor = None
        return comps

    def _post(self, comp, i, p):
        rpc = self.rpc
        pubsub = CHANS[p['ch']]
        if p['via'] == 'raw':
            msg = {'cmd': 'c16', 'arg': {'id': i}}
            if p['fwd'] is not None:
                msg['fwd'] = p['fwd']
            if p['origin'] is not None:
                msg['origin'] = modname(p['origin'])
            comp.publish(pubsub, msg)
        elif p['via'] == 'advance':
            thing = {'uid': 'task.%06d' % i, 'type': 'task', 'state': 'AGENT_SCHEDULING'}
            kw = {} if p['fwd'] is None else {'fwd': p['fwd']}
            comp.advance(thing, p['state'], publish=True, push=False, **kw)
        else:
            from radical.pilot import messages as rpm
            cls = {'rpc_req': rpm.RPCRequestMessage, 'rpc_res': rpm.RPCResultMessage,
                   'component_start': rpm.ComponentStartedMessage, 'rp_msg': rpm.RPBaseMessage}[p['mtype']]
            kw = {} if p['fwd'] is None else {'fwd': p['fwd']}
            m = cls(**kw)
            m['uid'] = 'msg.%d' % i
            comp.publish(pubsub, m)

    # ------------------------------------------------------------------ life cycle
    def _life_session(self, k, proxy_url):
        """A real Session for side k whose proxy hand-shake (_start_proxy / _connect_proxy),
        _publish_cfg, _crosswire_proxy and close() are the real code."""
        from radical.pilot.session import Session
        ru = self.ru
        quiet = self.quiet
        name = modname(k)
        made = {}

        def init_cfg(s):
            s._cfg = ru.Config(from_dict={'path': os.getcwd(), 'bridges': {}, 'components': {},
                                          'proxy_url': None if not k else proxy_url})
            s._rcfg, s._rcfgs = {}, {}
            s._log = s._prof = s._rep = quiet

        def start_registry(s):
            s._reg_service = quiet

        def connect_registry(s):
            s._reg = Reg()

        def start_components(s):
            gen = NET.fresh()
            made['bridges'] = []
            for c in CHANS:
                b = '%s.%d/%s' % (name, gen, c)
                NET.subs.setdefault(b, [])
                made['bridges'].append(b)
                s._reg['bridges.%s' % c] = {'addr_pub': 'mem://pub/' + b, 'addr_sub': 'mem://sub/' + b}

        env = {'RP_PILOT_ID': name} if k else {}
        with mock.patch.object(Session, '_init_cfg_from_scratch', init_cfg), \
             mock.patch.object(Session, '_init_cfg_from_dict', init_cfg), \
             mock.patch.object(Session, '_start_registry', start_registry), \
             mock.patch.object(Session, '_connect_registry', connect_registry), \
             mock.patch.object(Session, '_init_rm', lambda s: None), \
             mock.patch.object(Session, '_start_components', start_components), \
             mock.patch.dict(os.environ, env):
            os.environ.pop('RADICAL_PILOT_PROXY_URL', None)
            if not k:
                os.environ.pop('RP_PILOT_ID', None)
                if proxy_url:
                    # an existing proxy service is announced through the environment
                    # (Session(proxy_url=..) returns from _start_proxy without registering)
                    os.environ['RADICAL_PILOT_PROXY_URL'] = proxy_url
                s = Session(uid='c16.session', cfg={}, _role=Session._PRIMARY)
            else:
                s = Session(uid='c16.session', cfg={}, _role=Session._AGENT_0)
        comp = self._component(k, s)
        s._cmgr = Cmgr(comp, made['bridges'])
        return s, comp

    def run_life(self, case):
        """connect / round / close events on the real Session + Proxy code (see module doc)"""
        global NET
        import contextlib
        import radical.pilot.proxy as rpp
        ru = self.ru
        NET = Net()
        live, sides = [], {}
        done = registered = False
        fails = 0
        next_id = 0
        with contextlib.ExitStack() as st:
            for tgt, attr, new in [(ru.zmq, 'Publisher', FakePublisher), (ru.zmq, 'Subscriber', FakeSubscriber),
                                   (ru.zmq, 'Client', FakeClient), (ru.zmq, 'PubSub', FakeBridge),
                                   (ru.zmq, 'Queue', FakeBridge), (ru, 'Logger', lambda *a, **k: self.quiet),
                                   (ru.zmq.Server, '__init__', _server_init), (ru.zmq.Server, 'start', _server_start),
                                   (ru.zmq.Server, 'wait', _server_wait), (rpp, 'mp', _FakeMP), (rpp, 'mt', _FakeMT)]:
                st.enter_context(mock.patch.object(tgt, attr, new))
            st.enter_context(mock.patch.object(ru.zmq.Server, 'addr', property(lambda self: self._addr)))
            try:
                url = None
                if not case['embedded']:
                    # a proxy service that exists before the session (proxy_url handed to the client)
                    NET.actor = 'service'
                    service = rpp.Proxy(path=os.getcwd())
                    service.start()
                    url = service.addr
                for op in case['ops']:
                    if op[0] == 'connect':
                        k = op[1]
                        if k in live or (k == 0 and (done or registered)):
                            fails += 1
                            continue
                        NET.actor = k
                        try:
                            s, comp = self._life_session(k, url if (k == 0 or url) else 'mem://proxy/none')
                        except (RuntimeError, AssertionError):
                            # the hand-shake with the proxy failed: no session, the process ends
                            NET.exit_side(k)
                            fails += 1
                            continue
                        if k == 0:
                            registered = True
                            url = s._cfg.proxy_url
                        sides[k] = (s, comp)
                        live.append(k)
                    elif op[0] == 'close':
                        k = op[1]
                        if k not in live:
                            continue
                        NET.actor = k
                        sides[k][0].close()
                        NET.exit_side(k)
                        for b in sides[k][0]._cmgr.bridges:
                            NET.kill(b)
                        live.remove(k)
                        if k == 0:
                            done, registered = True, False
                    else:
                        _, posts, sched = op
                        NET.actor = None
                        for j, p in enumerate(posts):
                            if p['at'] in live:
                                self._post(sides[p['at']][1], next_id + j, p)
                        next_id += len(posts)
                        NET.run_round(len(posts) * (len(live) + 2), sched)
            finally:
                for srv in NET.servers.values():
                    srv._term.set()
                    for c in list(getattr(srv, '_clients', {}).values()):
                        c['term'].set()
                        c['proc'].join()
        code = {'register': 0, 'lookup': 1, 'unregister': 2}
        for a, _ in NET.requests:
            if not isinstance(a, int):
                raise AssertionError('request to the proxy from %r' % (a,))
        return {'events': NET.events, 'npub': NET.npub, 'quiet': not NET.pending, 'errors': NET.errors,
                'reqs': [[a, code[c]] for a, c in NET.requests], 'fails': fails}

    def run_impl(self, case):
        set_scheme(case.get('names', 'std'))
        if case['kind'] == 'life':
            return self.run_life(case)
        if case['kind'] == 'fwd':
            me, fp = case['me'], case['fp']
            self._build(me)                     # sides 0..me exist; we talk to side `me` only
            bridge = ('proxy/control' if fp else '%s/%s' % (modname(me), CHANS[0]))
            topic = self.rpc.PROXY_CONTROL_PUBSUB if fp else self.rpc.CONTROL_PUBSUB
            msg = {'cmd': 'c16', 'arg': {'id': 0}}
            if case['fwd'] is not None:
                msg['fwd'] = case['fwd']
            if case['origin'] is not None:
                msg['origin'] = modname(case['origin'])
            from radical.utils.serialize import to_msgpack, from_msgpack
            data = self.ru.as_bytes(topic) + b' ' + to_msgpack(msg)
            # deliver to the subscribers of side `me` only
            subs = NET.subs.get(bridge, [])
            if fp:
                # the proxy bridge has one forwarder per side, in side order
                NET.subs[bridge] = [subs[me]]
            NET.deliver(bridge, data)
            out = []
            want = ('%s/%s' % (modname(me), CHANS[0])) if fp else 'proxy/control'
            for b, d in NET.pending:
                if b != want:
                    raise AssertionError('forwarder published on %s' % b)
                m = self.ru.as_string(from_msgpack(d.split(b' ', 1)[1]))
                out.append([self._msg_id(m), self._origin(m), self._fwd(m)])
            if len(out) > 1:
                raise AssertionError('forwarder published %d times' % len(out))
            return {'out': out[0] if out else None, 'errors': NET.errors}
        n = case['n']
        comps = self._build(n)
        if case['kind'] == 'fault':
            NET.faults = {(a, f, c): set(ns) for a, f, c, ns in case['faults']}
        for i, p in enumerate(case['posts']):
            self._post(comps[p['at']], i, p)
        NET.run(len(case['posts']) * (n + 3), case['sched'])
        out = {'events': NET.events, 'npub': NET.npub, 'quiet': not NET.pending, 'errors': NET.errors}
        if case['kind'] == 'fault':
            out['failures'] = NET.failures
        return out

    # ------------------------------------------------------------------ coq
    def coq_row(self, case, obs):
        if case['kind'] == 'life':
            ob = '(%s, %s, %s, %s, %s, %s)' % (
                L.lst([ev_lit(e) for e in obs['events']]), L.nat(obs['npub']), L.boolean(obs['quiet']),
                L.nat(obs['errors']), L.lst(['(%s, %s)' % (L.nat(a), REQ[c]) for a, c in obs['reqs']]),
                L.nat(obs['fails']))
            return '(c16_life_row %s %s ++ [true])' % (ops_lit(case), ob)
        if case['kind'] == 'fault':
            ob = '(%s, %s, %s, %s, %s)' % (
                L.lst([ev_lit(e) for e in obs['events']]), L.nat(obs['npub']), L.boolean(obs['quiet']),
                L.nat(obs['errors']), L.lst(['(%s, %s)' % (wkey_lit(a, f, c), L.nat(i)) for a, f, c, i in obs['failures']]))
            return '(c16_fault_row %s %s)' % (fault_args(case), ob)
        return '(%s ++ [true; true])' % self._coq_row_static(case, obs)

    def _coq_row_static(self, case, obs):
        if case['kind'] == 'fwd':
            o = obs['out']
            if obs['errors']:
                o = [99, None, None]         # a raising forwarder never agrees with the model
            return '(c16_fwd_row %s %s %s %s)' % (
                L.nat(case['me']), L.boolean(case['fp']), msg_lit(0, case['origin'], case['fwd']),
                L.opt(None if o is None else msg_lit(*o)))
        ob = '(%s, %s, %s, %s)' % (L.lst([ev_lit(e) for e in obs['events']]), L.nat(obs['npub']),
                                   L.boolean(obs['quiet']), L.nat(obs['errors']))
        return '(c16_row %s %s %s %s)' % (L.nat(case['n']), L.lst([post_lit(p) for p in case['posts']]),
                                          L.lst([L.nat(k) for k in case['sched']]), ob)

    def model_show(self, case):
        if case['kind'] == 'life':
            return 'life_obs %s' % ops_lit(case)
        if case['kind'] == 'fault':
            return 'model_fobs %s' % fault_args(case)
        if case['kind'] == 'fwd':
            return 'pubsub_fwd %s %s %s' % (L.nat(case['me']), L.boolean(case['fp']),
                                            msg_lit(0, case['origin'], case['fwd']))
        return 'model_obs %s %s %s' % (L.nat(case['n']), L.lst([post_lit(p) for p in case['posts']]),
                                       L.lst([L.nat(k) for k in case['sched']]))

    def describe(self, case):
        set_scheme(case.get('names', 'std'))
        return self._describe(case)

    def _describe(self, case):
        if case['kind'] == 'life':
            top = max([op[1] for op in case['ops'] if op[0] != 'round'] + [0])
            return dict(case, sides=[modname(k) for k in range(top + 1)],
                        note='side 0 = client (owner of the session id)')
        if case['kind'] == 'fwd':
            return dict(case, module=modname(case['me']))
        return dict(case, sides=[modname(k) for k in range(case['n'] + 1)])

    def nontrivial(self, case, obs):
        if case['kind'] == 'life':
            # some message posted AFTER a pilot closed was delivered on another side
            at, late, i, closed = {}, set(), 0, False
            for op in case['ops']:
                if op[0] == 'close' and op[1] != 0:
                    closed = True
                elif op[0] == 'round':
                    for p in op[1]:
                        at[i] = p['at']
                        if closed:
                            late.add(i)
                        i += 1
            return any(e[2] in late and e[0] != at[e[2]] for e in obs['events'])
        if case['kind'] == 'fault':
            # some hand-over failed AND some message still crossed
            at = {i: p['at'] for i, p in enumerate(case['posts'])}
            return bool(obs['failures']) and any(e[0] != at.get(e[2]) for e in obs['events'])
        if case['kind'] != 'net' or case['n'] < 1:
            return False
        at = {i: p['at'] for i, p in enumerate(case['posts'])}
        return any(e[0] != at.get(e[2]) for e in obs['events'])

    def signature(self, case, obs, clause):
        if case['kind'] == 'life':
            return '%s:Session.close/proxy life cycle' % clause
        if case['kind'] == 'fault':
            return '%s:crosswire_pubsub under failing put' % clause
        if case['kind'] == 'fwd':
            return '%s:pubsub_fwd' % clause
        return '%s:Session.crosswire_pubsub' % clause

    def shrink(self, case):
        if case.get('names', 'std') != 'std':
            yield {k: v for k, v in case.items() if k != 'names'}
        yield from self._shrink(case)

    def _shrink(self, case):
        if case['kind'] == 'life':
            ops = case['ops']
            if case['embedded']:
                yield dict(case, embedded=False)
            for i in range(len(ops)):
                yield dict(case, ops=ops[:i] + ops[i + 1:])
            for i, op in enumerate(ops):
                if op[0] == 'round':
                    for j in range(len(op[1])):
                        if len(op[1]) > 1:
                            yield dict(case, ops=ops[:i] + [['round', op[1][:j] + op[1][j + 1:], []]] + ops[i + 1:])
                    if op[2]:
                        yield dict(case, ops=ops[:i] + [['round', op[1], []]] + ops[i + 1:])
                    for j, p in enumerate(op[1]):
                        if p['via'] != 'raw' or p['ch'] != 0:
                            f = p['fwd']
                            if f is None:
                                f = ((p['at'] != 0) if p['via'] == 'advance' else p['mtype'] in ('rpc_req', 'rpc_res')) \
                                    if p['via'] != 'raw' else None
                            q = {'at': p['at'], 'ch': 0, 'via': 'raw', 'origin': p.get('origin'), 'fwd': f}
                            yield dict(case, ops=ops[:i] + [['round', op[1][:j] + [q] + op[1][j + 1:], op[2]]] + ops[i + 1:])
            return
        if case['kind'] == 'fault':
            fs = case['faults']
            for i in range(len(fs)):
                yield dict(case, faults=fs[:i] + fs[i + 1:])
                a, f, c, ns = fs[i]
                for j in range(len(ns)):
                    if len(ns) > 1:
                        yield dict(case, faults=fs[:i] + [[a, f, c, ns[:j] + ns[j + 1:]]] + fs[i + 1:])
            ps = case['posts']
            if len(ps) > 1:
                for i in range(len(ps)):
                    yield dict(case, posts=ps[:i] + ps[i + 1:], sched=[])
            if case['sched']:
                yield dict(case, sched=[])
            n = case['n']
            top = max([p['at'] for p in ps] + [a for a, _, _, _ in fs] +
                      [p['origin'] for p in ps if p['via'] == 'raw' and p['origin'] is not None and p['origin'] <= n])
            if n > 0 and top <= n - 1 and not any(p['via'] == 'raw' and (p['origin'] or 0) > n for p in ps):
                yield dict(case, n=n - 1, sched=[])
            return
        if case['kind'] != 'net':
            return
        ps = case['posts']
        if len(ps) > 1:
            for i in range(len(ps)):
                yield dict(case, posts=ps[:i] + ps[i + 1:], sched=[])
        if case['sched']:
            yield dict(case, sched=[])
        n = case['n']
        if n > 0:
            top = max([p['at'] for p in ps] + [p['origin'] for p in ps
                                                if p['via'] == 'raw' and p['origin'] is not None and p['origin'] <= n])
            for m in [n - 1]:
                if top <= m:
                    ps2 = [dict(p, origin=m + 1 + (p['origin'] - n - 1))
                           if p['via'] == 'raw' and p['origin'] is not None and p['origin'] > n else p for p in ps]
                    yield dict(case, n=m, posts=ps2, sched=[])
        for i, p in enumerate(ps):
            if p['via'] != 'raw':
                # the same flag as a plain dict
                f = p['fwd']
                if f is None:
                    f = (p['at'] != 0) if p['via'] == 'advance' else p['mtype'] in ('rpc_req', 'rpc_res')
                yield dict(case, posts=ps[:i] + [{'at': p['at'], 'ch': p['ch'], 'via': 'raw', 'origin': None,
                                                  'fwd': f}] + ps[i + 1:])

    def distribution(self, results):
        kinds, vias, ns = {}, {}, {}
        crossed = circ = 0
        for r in results:
            c = r['case']
            kinds[c['kind']] = kinds.get(c['kind'], 0) + 1
            nk = 'naming/' + c.get('names', 'std')
            vias[nk] = vias.get(nk, 0) + 1
            if c['kind'] == 'fault':
                ns[str(c['n'])] = ns.get(str(c['n']), 0) + 1
                for a, f, ch, att in c['faults']:
                    key = 'fault/%s/attempts=%s' % ('proxy->local' if f else 'local->proxy', ','.join(map(str, att)))
                    vias[key] = vias.get(key, 0) + 1
            if c['kind'] == 'life':
                for op in c['ops']:
                    key = 'life/' + (op[0] if op[0] == 'round' else '%s %s' % (op[0], 'client' if op[1] == 0 else 'pilot'))
                    vias[key] = vias.get(key, 0) + 1
                if r['obs'] and self.nontrivial(c, r['obs']):
                    crossed += 1
            if c['kind'] == 'net':
                ns[str(c['n'])] = ns.get(str(c['n']), 0) + 1
                for p in c['posts']:
                    key = p['via'] if p['via'] != 'raw' else 'raw/fwd=%s/origin=%s' % (
                        p['fwd'], 'absent' if p['origin'] is None else 'own' if p['origin'] == p['at']
                        else 'other' if p['origin'] <= c['n'] else 'unknown')
                    vias[key] = vias.get(key, 0) + 1
                if r['obs'] and self.nontrivial(c, r['obs']):
                    crossed += 1
                if r['obs'] and not r['obs']['quiet']:
                    circ += 1
        return dict(kinds=kinds, pilots=ns, posts=vias, cases_with_crossing=crossed, cases_stopped_at_bound=circ)


PROP = C16()
