"""C12 -- thread interleavings of the tmgr scheduler's entry points.

Two real entry-point calls (work / control_cb / _base_state_cb) run in two real threads on one real scheduler
instance.  Thread A is held, by a sys.settrace line tracer on the scheduler's own code objects
(tmgr/scheduler/base.py, round_robin.py, backfilling.py), right before its k-th line, for every k; thread B then
runs to completion or until it blocks on one of the scheduler's locks; then A is released.  The scheduler's locks
are reentrant locks of the same semantics which additionally tell the driver when an acquire has to wait, so a
blocked thread and a deadlock (both threads waiting) are seen at once, without time-outs."""
import os
import sys
import threading
import time

from .c12 import ERR

SCHED_FILES = ('tmgr/scheduler/base.py', 'tmgr/scheduler/round_robin.py', 'tmgr/scheduler/backfilling.py')


class Abort(BaseException):
    pass


class Ctl:
    """cooperative scheduling of the two threads: exactly one of them runs at any time; a thread runs until it
    finishes, reaches the hold point, or has to wait for a lock; so every run is deterministic"""

    def __init__(self):
        self.cv = threading.Condition()
        self.st = {}             # thread name -> 'run' | 'held' | 'blocked' | 'fin'
        self.lock_of = {}        # thread name -> name of the lock it waits for
        self.grant = {}          # thread name -> may retry its acquire
        self.tries = {}          # thread name -> number of failed acquire attempts
        self.abort = False

    def set(self, name, state):
        with self.cv:
            self.st[name] = state
            self.cv.notify_all()


class TLock:
    """reentrant lock (as ru.RLock / threading.RLock) which hands the turn to the driver when an acquire has to wait"""

    def __init__(self, name, ctl):
        self._l = threading.RLock()
        self.name, self.ctl = name, ctl

    def acquire(self, blocking=True, timeout=-1):
        if self._l.acquire(False):
            return True
        ctl = self.ctl
        me = threading.current_thread().name
        while True:
            with ctl.cv:
                ctl.lock_of[me] = self.name
                ctl.grant[me] = False
                ctl.tries[me] = ctl.tries.get(me, 0) + 1
                ctl.st[me] = 'blocked'
                ctl.cv.notify_all()
                while not ctl.grant.get(me) and not ctl.abort:
                    ctl.cv.wait(0.05)
                if ctl.abort:
                    raise Abort()
                ctl.st[me] = 'run'
            if self._l.acquire(False):
                with ctl.cv:
                    ctl.lock_of.pop(me, None)
                return True

    def release(self):
        self._l.release()

    def __enter__(self):
        self.acquire()
        return self

    def __exit__(self, *a):
        self.release()


def _is_sched(code):
    fn = code.co_filename.replace(os.sep, '/')
    return fn.endswith(SCHED_FILES)


def one_run(prop, case, rps, k):
    """prefix sequentially, then A (held before its k-th scheduler line) and B in two threads.
    Returns None when A has fewer than k lines, else the outcome."""
    events = []
    prop.sb = []
    comp = prop._mk(case['kind'], events)
    ctl = Ctl()
    live, st = {}, {}
    for o in case['ops']:
        try:
            prop._prepare(comp, o, live, rps, events, st)()
        except Exception:                                   # noqa
            pass
    pre_fwd = [x[0] for e in events if e[0] == 'adv' and e[1] == 'AForward' for x in e[2]]
    del events[:]
    # the locks of the scheduler, same semantics, observable
    comp._pilots_lock = TLock('pilots', ctl)
    comp._tasks_lock = TLock('tasks', ctl)
    comp._wait_lock = TLock('wait', ctl)
    a, b = case['inter']
    # messages are fixed when they are published: task notifications first (they copy the task dicts as they are)
    calls = {}
    for name, o in sorted([('A', a), ('B', b)], key=lambda x: x[1][0] != 'tstates'):
        calls[name] = prop._prepare(comp, o, live, rps, events, st)
    errs = {'A': None, 'B': None}
    go = threading.Event()
    where = [None]
    cnt = [0]

    def local(frame, event, arg):
        if event == 'line':
            cnt[0] += 1
            if cnt[0] == k:
                where[0] = '%s:%d %s' % (os.path.basename(frame.f_code.co_filename), frame.f_lineno,
                                         frame.f_code.co_name)
                ctl.set('A', 'held')
                go.wait(20)
        return local

    def tracer(frame, event, arg):
        return local if _is_sched(frame.f_code) else None

    def run(name, traced):
        if traced:
            sys.settrace(tracer)
        try:
            calls[name]()
        except Abort:
            errs[name] = 'EAbort'
        except Exception as e:                              # noqa
            errs[name] = ERR.get(type(e).__name__, 'EOther')
        finally:
            sys.settrace(None)
            ctl.set(name, 'fin')

    def wait(pred, timeout=10.0):
        end = time.time() + timeout
        with ctl.cv:
            while not pred():
                left = end - time.time()
                if left <= 0:
                    return False
                ctl.cv.wait(min(left, 0.05))
        return True

    def resume(name):
        """let `name` go on; True unless it is still waiting for its lock"""
        with ctl.cv:
            if ctl.st[name] == 'held':
                ctl.st[name] = 'run'
                go.set()
                return True
            n = ctl.tries.get(name, 0)
            ctl.st[name] = 'run'
            ctl.grant[name] = True
            ctl.cv.notify_all()
        wait(lambda: ctl.st[name] in ('blocked', 'fin', 'held') or ctl.tries.get(name, 0) != n
             or (ctl.st[name] == 'run' and name not in ctl.lock_of))
        with ctl.cv:
            return not (ctl.st[name] == 'blocked' and ctl.tries.get(name, 0) != n)

    ctl.st['A'] = 'run'
    ta = threading.Thread(target=run, args=('A', True), name='A', daemon=True)
    ta.start()
    wait(lambda: ctl.st['A'] in ('held', 'fin'))
    if ctl.st['A'] != 'held':
        ta.join(5)
        return None
    ctl.st['B'] = 'run'
    tb = threading.Thread(target=run, args=('B', False), name='B', daemon=True)
    tb.start()
    wait(lambda: ctl.st['B'] in ('blocked', 'fin'))
    b_ran = 'whole' if ctl.st['B'] == 'fin' else 'up to the %s lock' % ctl.lock_of.get('B')
    status = 'ok'
    cur = 'B'
    end = time.time() + 15
    while True:
        if not wait(lambda: ctl.st[cur] in ('blocked', 'fin'), max(0.1, end - time.time())):
            status = 'timeout'
            break
        oth = 'A' if cur == 'B' else 'B'
        if ctl.st[cur] == 'fin':
            if ctl.st[oth] == 'fin':
                break
            if not resume(oth):
                status = 'stuck: %s waits for the %s lock nobody holds' % (oth, ctl.lock_of.get(oth))
                break
            cur = oth
            continue
        # cur has to wait for a lock
        if ctl.st[oth] == 'fin':
            if not resume(cur):
                status = 'stuck: %s waits for the %s lock nobody holds' % (cur, ctl.lock_of.get(cur))
                break
            continue
        if resume(oth):
            cur = oth
            continue
        if resume(cur):
            continue
        status = 'deadlock: A waits for the %s lock, B for the %s lock' % (ctl.lock_of.get('A'), ctl.lock_of.get('B'))
        break
    if status != 'ok':
        with ctl.cv:
            ctl.abort = True
            ctl.cv.notify_all()
        go.set()
    ta.join(5)
    tb.join(5)
    if status != 'ok':
        return {'status': status, 'fwd': [], 'bad': False, 'errs': [None, None],
                'snap': {'pilots': [], 'early': [], 'pids': [], 'idx': 0, 'wait': []}, 'allfwd': [],
                'where': where[0], 'b_ran': b_ran}
    fwd = sorted([x[0], x[1]] for e in events if e[0] == 'adv' and e[1] == 'AForward' for x in e[2])
    bad = any(e[0] == 'adv' and e[1] in ('AFailed', 'AOther') for e in events)
    return {'status': status, 'fwd': fwd, 'bad': bad, 'errs': [errs['A'], errs['B']],
            'snap': prop._snapshot(comp, case['kind']), 'allfwd': pre_fwd + [x[0] for x in fwd],
            'where': where[0], 'b_ran': b_ran}


def run_inter(prop, case, consts, rps):
    outs = []           # distinct outcomes, each with the hold points that produced it
    ks = case.get('ks')
    k = 0
    nlines = 0
    whole = 0
    while True:
        k += 1
        if ks is not None:
            if k > len(ks):
                break
            kk = ks[k - 1]
        else:
            kk = k
        o = one_run(prop, case, rps, kk)
        if o is None:
            break
        nlines = kk
        whole += (o['b_ran'] == 'whole')
        key = (o['status'].split(':')[0], str(o['fwd']), o['bad'], str(o['errs']), str(o['snap']), str(o['allfwd']))
        for x in outs:
            if x['key'] == key:
                x['ks'].append(kk)
                break
        else:
            outs.append(dict(o, key=key, ks=[kk], k=kk))
        if k > 400:
            break
    for x in outs:
        x['key'] = None
    return {'inter': outs, 'nlines': nlines, 'b_whole': whole, 'consts': consts, 'sb': []}
