"""C10 -- the generated task scripts run what the user described.

Implementation under test (real code, see c10_driver.py): Popen.initialize,
Popen._handle_task, ResourceManager.find_launcher, Fork.can_launch/get_*,
AgentExecutingComponent._create_exec_script/_create_launch_script and all their
helpers, LaunchMethod.get_exec/_create_arg_string (ru.sh_quote), Popen._launch_task
(sp.Popen of the launch script) -- and then REAL bash executing the scripts."""
import os

from . import coqlit as L
from .core import Prop, rp_import
from . import c10_driver as D

CLAUSES = ['argv_exact', 'env_described', 'rp_env_complete', 'cwd_sandbox', 'pre_before_post_after',
           'per_rank_only_on_rank', 'failing_pre_blocks_exec', 'exit_code_rule', 'output_files',
           'executable_runs', 'script_terminates']

SITES = {
    'argv_exact': 'LaunchMethod.get_exec',
    'env_described': 'AgentExecutingComponent._get_task_env',
    'rp_env_complete': 'AgentExecutingComponent._get_rp_env',
    'cwd_sandbox': 'AgentExecutingComponent._create_launch_script',
    'pre_before_post_after': 'AgentExecutingComponent._create_exec_script',
    'per_rank_only_on_rank': 'AgentExecutingComponent._get_prep_exec',
    'failing_pre_blocks_exec': 'AgentExecutingComponent._get_prep_exec',
    'exit_code_rule': 'AgentExecutingComponent._get_exec/_get_launch',
    'output_files': 'AgentExecutingComponent._get_launch',
    'executable_runs': 'AgentExecutingComponent._create_exec_script',
    'script_terminates': 'AgentExecutingComponent._get_rank_ids(rp_sync_ranks)',
    'sync_barrier_holds': 'AgentExecutingComponent._get_rank_ids(rp_sync_ranks)',
    'impl_error': 'Popen._handle_task',
}


# ------------------------------------------------------------------ literals
def bz(s):
    """text -> Coq `bytes` (UTF-8)."""
    if isinstance(s, str):
        b = s.encode('utf8', 'surrogateescape')
    else:
        b = bytes(s)
    if b and all(32 <= x < 127 and x != 34 for x in b):
        return '(B "%s")' % b.decode('ascii')
    return L.zlist(list(b))


def obz(s):
    return 'None' if s is None else '(Some %s)' % bz(s)


def cmd_lit(c):
    if c[0] == 'stub':
        return '(CStub %s %s)' % (L.Z(c[1]), L.Z(c[2]))
    return '(CExport %s %s)' % (bz(c[1]), bz(c[2]))


def entry_lit(e):
    if 'all' in e:
        return '(EAll %s)' % cmd_lit(e['all'])
    return '(EPer %s)' % L.lst(['(%s, %s)' % (L.Z(r), L.lst([cmd_lit(c) for c in cs])) for r, cs in e['per']])


def cfg_lit(case):
    return ('(mkCfg %s %s %s %s %s %s %s %s %s %s %s %s %s %s)' % (
        bz(D.PID), bz(D.SID), bz(D.RESOURCE),
        bz('/R/rs'), bz('$RP_RESOURCE_SANDBOX/$RP_SESSION_ID/'), bz('$RP_SESSION_SANDBOX/' + D.PID),
        bz(D.REG_ADDR), bz(D.PUB_ADDR), bz(D.SUB_ADDR), bz('/R/bin/radical-pilot-control'),
        L.boolean(bool(case.get('prof'))),
        L.lst([cmd_lit(c) for c in case.get('task_pre_exec', [])]),
        L.lst(['(%s, %s)' % (bz('VERIF_LM_ENV'), bz('fork'))]),
        bz('/R/rs/%s/%s' % (D.SID, D.PID))))


def gpus_of(case):
    return case['gpus'] if case.get('gpus') is not None else [[] for _ in range(case['ranks'])]


def task_lit(case):
    return ('(mkTask %s %s %s %s %s %s %s %s %s %s %s %s %s %s %s %s %s %s %s %s)' % (
        bz(case['uid']), obz(case.get('name')),
        bz(case.get('exe', 'probe')), L.lst([bz(a) for a in case['args']]),
        L.lst(['(%s, %s)' % (bz(k), bz(v)) for k, v in case['env']]),
        L.Z(case['ranks']), L.Z(case['cpr']), L.Z(case['gpr_q']),
        L.boolean(bool(case.get('omp'))), L.boolean(bool(case.get('cuda'))), L.boolean(bool(case.get('mpi'))),
        L.lst([L.zlist(g) for g in gpus_of(case)]),
        L.lst([entry_lit(e) for e in case['pre']]), L.lst([entry_lit(e) for e in case['post']]),
        L.boolean(bool(case['sync'])),
        L.lst([cmd_lit(c) for c in case['pre_launch']]), L.lst([cmd_lit(c) for c in case['post_launch']]),
        obz(case.get('stdout')), obz(case.get('stderr')), L.boolean(bool(case.get('startup_to')))))


def event_lit(uid, s):
    if s.startswith('P:'):
        return '(EProf %s)' % bz(s[2:])
    if s.startswith('C:'):
        try:
            return '(ECmd %s)' % L.Z(int(s[2:]))
        except ValueError:
            return '(EProf %s)' % bz('bad-stub-line')
    if s == 'X':
        return 'EExec'
    if s == 'T:%s:task_startup_done:uid=%s' % (D.SID, uid):
        return 'ECtrl'
    return '(EProf %s)' % bz('unexpected-trace-line')


SIGS = {'pre_exec': 'PreExec', 'post_exec': 'PostExec', 'pre_launch': 'PreLaunch', 'post_launch': 'PostLaunch',
        'launcher_env': 'LauncherEnv'}


def line_lit(s):
    if s.startswith('out:'):
        return '(LOut %s)' % bz(s[4:])
    if s.startswith('err:'):
        return '(LErr %s)' % bz(s[4:])
    if s.endswith(' failed') and s[:-7] in SIGS:
        return '(LFail %s)' % SIGS[s[:-7]]
    return '(LFail LauncherEnv)'          # any other line: not the executable's


def lines_lit(ls):
    return 'None' if ls is None else '(Some %s)' % L.lst([line_lit(x) for x in ls])


def obs_lit(case, obs):
    rs = []
    for ro in obs['ranks']:
        p = ro['probe']
        if p is None:
            pl = 'None'
        else:
            pl = '(Some (%s, %s, %s))' % (L.lst([bz(a) for a in p['args']]), bz(p['cwd']),
                                          L.lst(['(%s, %s)' % (bz(k), bz(v)) for k, v in p['env']]))
        rs.append('(mkR %s %s %s)' % (L.lst([event_lit(case['uid'], e) for e in ro['trace']]), pl,
                                      'None' if ro['rc'] is None else '(Some %s)' % L.Z(ro['rc'])))
    return '(mkO %s %s %s %s %s %s %s %s)' % (
        L.Z(obs['launch_rc']), L.lst([event_lit(case['uid'], e) for e in obs['ltrace']]), L.lst(rs),
        lines_lit(obs['stdout']), lines_lit(obs['stderr']),
        L.lst([bz(x) for x in (obs['sig'] or [])]), obz(obs['exec_line']), L.zlist(obs.get('blocked') or []))


# ------------------------------------------------------------------ generator
ARG_POOL = ['a', 'foo.txt', '-x', '--opt=1', 'a b', ' lead', 'trail ', '', '"', "'", 'x"y', "it's", 'say "hi"',
            '*', '?', '[a-z]*', '~', '~/x', '{a,b}', 'a\\b', '\\', 'a\\', '\\\\', '\\"', '"\\', 'c:\\dir\\f',
            'nl\nx', '\n', 'tab\tx', '\r', 'h\u00e9', '\u65e5\u672c\u8a9e', '\U0001f600', '!', '!!', '#c', ';', '&', '|',
            '<', '>', '(', ')', 'a;b', 'a&&b', 'x=1', '%s', '-', '--', 'a  b', "'\"'", '\\n', '\\t', '\x7f', '\x01',
            'a' * 200, '/R/bin/probe', 'K="v"', '\\\n', 'e\\\nf', '^', ',', '@', ':', '+', '=']
ALPHA = list('ab \'"\\*?~!#;&|<>(){}[]=%\n\t') + ['\u00e9', '\u65e5']
ENV_KEYS = ['FOO', 'BAR_1', '_x', 'MY_VAR', 'A', 'LONG_NAME_WITH_9', 'lower', 'PRE_A']
PLAIN_VALS = ['1', 'v', 'a.b', 'x/y', 'k=v', 'a,b', '0:1', 'A-B', 'u@h', 'p+q', '50%']
STD_NAMES = ['my.out', 'o', 'my out.txt', 'o"ut', "it's.log", 'r\u00e9s.txt', 'a*b', 'a\\b', 'x;y', ' lead', 'a&b',
             'out>put', '#h', '~t', 'f(1)', 'tab\tname']


def rand_text(rng):
    r = rng.random()
    if r < 0.7:
        return rng.choice(ARG_POOL)
    return ''.join(rng.choice(ALPHA) for _ in range(rng.randint(1, 8)))


def gen_case(rng, quoting_heavy=False):
    ranks = rng.choice([1, 1, 1, 1, 1, 2, 2, 3, 4])
    ids = iter(range(1, 1000))

    def stub(pfail):
        return ['stub', next(ids), 0 if rng.random() > pfail else rng.choice([1, 1, 2, 7, 255])]

    def export():
        return ['export', rng.choice(['PRE_A', 'PRE_B', 'FOO', 'OMP_NUM_THREADS']), rng.choice(PLAIN_VALS)]

    def cmd(pfail):
        return stub(pfail) if rng.random() < 0.8 else export()

    sync = rng.random() < (0.2 if ranks > 1 else 0.08)

    def entries(n, pfail, is_pre):
        out = []
        for _ in range(n):
            if rng.random() < 0.7:
                out.append({'all': cmd(pfail)})
            else:
                rs = sorted(rng.sample(range(ranks + 1), rng.randint(1, min(ranks + 1, 3))))
                # a rank waiting in rp_sync_ranks for a rank that died never returns: no per-rank failures with sync
                pf = 0.0 if (sync and is_pre and ranks > 1) else pfail
                e = {'per': [[r, [cmd(pf) for _ in range(rng.randint(1, 2))]] for r in rs]}
                if rng.random() < 0.5:
                    e['single'] = True
                out.append(e)
        return out

    nargs = rng.choice([0, 1, 1, 2, 3, 5]) if not quoting_heavy else rng.randint(2, 8)
    gpr_q = rng.choice([0, 0, 0, 4, 4, 8, 2, 1, 6])
    cuda = rng.random() < 0.6
    gpus = None
    if gpr_q and rng.random() < 0.85:
        k = max(1, (gpr_q + 3) // 4)
        gpus = [[(r * k + j) % 8 for j in range(k)] for r in range(ranks)]
    env = []
    for k in rng.sample(ENV_KEYS, rng.choice([0, 0, 1, 1, 2, 3])):
        env.append([k, rand_text(rng)])
    names = rng.sample(STD_NAMES, 2)
    case = {
        'uid': rng.choice(['task.000000', 'task.000000', 'task.000042', 't_x.1']),
        'name': rng.choice([None, None, None, 'my task', 'name.with-chars_1', 't\u00e2che', '']),
        'exe': rng.choice(['probe', 'probe', '/R/bin/probe']),
        'args': [rand_text(rng) for _ in range(nargs)],
        'env': env,
        'ranks': ranks, 'cpr': rng.randint(1, 4), 'gpr_q': gpr_q,
        'omp': rng.random() < 0.3, 'cuda': cuda, 'mpi': rng.random() < 0.1, 'gpus': gpus,
        'pre': entries(rng.choice([0, 1, 1, 2, 3, 4]), 0.12, True),
        'post': entries(rng.choice([0, 0, 1, 2, 3]), 0.12, False),
        'sync': sync,
        'pre_launch': [stub(0.08) for _ in range(rng.choice([0, 0, 1, 2]))],
        'post_launch': [stub(0.08) for _ in range(rng.choice([0, 0, 1, 2]))],
        'task_pre_exec': [cmd(0.05)] if rng.random() < 0.25 else [],
        'stdout': None if rng.random() < 0.55 else (names[0] if rng.random() < 0.9 else '/R/log/abs.out'),
        'stderr': None if rng.random() < 0.55 else (names[1] if rng.random() < 0.9 else '/R/log/abs.err'),
        'startup_to': rng.random() < 0.2, 'prof': rng.random() < 0.2,
        'rcs': [0 if rng.random() < 0.7 else rng.choice([1, 2, 3, 42, 127, 255]) for _ in range(ranks)],
    }
    if sync and ranks > 1 and gate_ok(case) and rng.random() < 0.75:
        order = list(range(ranks))
        rng.shuffle(order)
        case['order'] = order
    return case


def all_cmds(case):
    for e in case['pre']:
        if 'all' in e:
            yield e['all']
        else:
            for _, cs in e['per']:
                for x in cs:
                    yield x
    for x in case['task_pre_exec'] + case['pre_launch']:
        yield x


def gate_ok(case):
    """a prescribed arrival order needs every rank to reach the synchronisation"""
    return not any(x[0] == 'stub' and x[2] for x in all_cmds(case))


def sync_case(n, order, extra=None):
    """minimal task with pre_exec_sync: n ranks arriving at the rank synchronisation in the given order"""
    c = {'uid': 'task.000000', 'name': None, 'exe': 'probe', 'args': ['a'], 'env': [], 'ranks': n, 'cpr': 1,
         'gpr_q': 0, 'omp': False, 'cuda': False, 'mpi': False, 'gpus': None,
         'pre': [{'all': ['stub', 1, 0]}], 'post': [], 'sync': True, 'pre_launch': [], 'post_launch': [],
         'task_pre_exec': [], 'stdout': None, 'stderr': None, 'startup_to': False, 'prof': False,
         'rcs': [0] * n, 'order': list(order)}
    c.update(extra or {})
    return c


def sync_cases(tier):
    import itertools
    seen = set()
    for n in (2, 3, 4):
        orders = []
        for d in range(n):
            rest = [r for r in range(n) if r != d]
            orders += [rest + [d], [d] + rest]          # rank d delayed to the end / first to arrive
        if n == 3 or tier == 'thorough':
            orders += [list(p) for p in itertools.permutations(range(n))]
        for o in orders:
            if tuple(o) not in seen:
                seen.add(tuple(o))
                yield sync_case(n, o)
    # the synchronisation combined with per-rank entries, a post_exec and a non-zero exit code
    yield sync_case(3, [2, 0, 1], {'pre': [{'all': ['stub', 1, 0]}, {'per': [[1, [['stub', 2, 0]]]]}],
                                   'post': [{'all': ['stub', 3, 0]}], 'rcs': [0, 5, 0]})


def special(s):
    return any(ch in s for ch in ' \'"\\*?~!#;&|<>(){}[]\n\t') or s == '' or any(ord(ch) > 126 for ch in s)


class C10(Prop):
    id = 'C10'
    module = 'c10'
    title = 'The generated task scripts run what the user described'
    props_files = ['Props/C10.v']
    extra_targets = ['Script/Oracle.vo']
    model_targets = ['Script/Oracle.vo']
    translators = []
    header = 'From RP Require Import Quote.Model Script.Model Script.Oracle.'
    clauses = CLAUSES
    corr_name = ('Script.Model(model_run: exec_prog/launch_prog + abstract shell, Quote.bash_words) vs '
                 'Popen._handle_task/_create_exec_script/_create_launch_script/... + real bash')
    rule = ('corpus, then seed-determined random task descriptions (arguments and environment values drawn from a '
            'pool of shell-hostile strings: blanks, both quote kinds, globs, backslashes, newlines, control bytes, '
            'unicode, empty; 1-4 ranks; global and per-rank pre/post_exec entries that succeed or fail; '
            'pre/post_launch; platform task_pre_exec; OpenMP/CUDA extensions; stdout/stderr names incl. hostile '
            'ones and absolute paths; exit codes) whose scripts are generated by the real code and executed by '
            'real bash; non-trivial = the executable ran on some rank and the case has a shell-special argument / '
            'environment value / output name or a pre/post command')
    trusted = [
        'correspondence harness harness/c10.py + c10_driver.py: mock set-up of the Popen component, stub '
        'commands/probe/prof/radical-pilot-control scripts, stand-in multi-rank launcher FakeMPI (subclass of the real '
        'Fork: starts the exec script once per rank with VERIF_RANK preset, exit = first non-zero rank status; can hold '
        'a rank back until k ranks have written the synchronisation marker, which fixes the arrival order), launch '
        'timeout + process-group kill + circuit breaker (cases not run are listed in the evidence), '
        'canonicalisation of the scratch root to /R, parsing of trace/probe files',
        'bash 5.2 and coreutils as the ground truth of the shell semantics; Quote.bash_words models only the '
        'fragment the generator emits and is validated against bash on every case, not verified',
        'library behaviour validated, not verified: radical.utils.sh_quote, ru.as_list, TaskDescription.verify/as_dict',
        'modelled, not verified: named_env, services (RP_INFO_*), task sandbox outside the pilot sandbox, profiler '
        'and gtod binaries, output-file detection lines, waiting in rp_sync_ranks, real MPI launchers',
    ]
    assumptions = ['arguments / environment values contain no $, backtick or NUL (sh_quote leaves $ and ` to the '
                   'shell by design)', 'the executable word and values of pre_exec exports are plain words',
                   'environment names are identifiers and do not shadow RP_* names',
                   'pilot-level strings (ids, sandboxes, addresses) contain no shell-special characters']
    widen_cases = 600

    # ------------------------------------------------------------------ cases
    def cases(self, rng, tier):
        for c in sync_cases(tier):
            yield c
        n = 260 if tier == 'quick' else 4000
        for i in range(n):
            yield gen_case(rng, quoting_heavy=(i % 4 == 0))
        if tier == 'thorough':
            # exhaustive small scope: every pool string alone as the only argument and as an environment value
            for s in ARG_POOL:
                c = gen_case(rng)
                c.update(args=[s], env=[['FOO', s]], ranks=1, rcs=[0], gpus=None, gpr_q=0, pre=[], post=[],
                         sync=False, pre_launch=[], post_launch=[])
                yield c
            for s in STD_NAMES:
                c = gen_case(rng)
                c.update(stdout=s, stderr=None, ranks=1, rcs=[0], gpus=None, gpr_q=0, pre_launch=[])
                c['pre'] = [e for e in c['pre'] if 'all' in e]
                c['post'] = [e for e in c['post'] if 'all' in e]
                yield c

    # ------------------------------------------------------------------ impl
    def impl_setup(self):
        self.rp = rp_import()
        # children run in <scratch>/wd_<k>: the launch-timeout ledger is shared by all workers of one check run
        self.driver = D.Driver(self.rp, os.path.join(os.getcwd(), 'c10'),
                               breaker=os.path.join(os.path.dirname(os.getcwd()), 'c10_launch_timeouts.log'))

    def run_impl(self, case):
        return self.driver.run(case)

    # ------------------------------------------------------------------ coq
    def _args(self, case):
        return '%s %s %s' % (cfg_lit(case), task_lit(case), L.zlist(case['rcs']))

    def coq_row(self, case, obs):
        if obs.get('not_run'):
            return 'c10_notrun_row'
        if obs.get('gen_error'):
            return '(c10_generr_row %s)' % self._args(case)
        return '(c10_row %s %s)' % (self._args(case), obs_lit(case, obs))

    def model_show(self, case):
        return 'show_model %s' % self._args(case)

    def nontrivial(self, case, obs):
        if obs.get('gen_error') or obs.get('not_run'):
            return False
        ran = any(r['probe'] is not None for r in obs['ranks'])
        rich = (any(special(a) for a in case['args']) or any(special(v) for _, v in case['env'])
                or bool(case['pre']) or bool(case['post'])
                or any(special(case.get(k) or '') for k in ('stdout', 'stderr') if case.get(k)))
        return ran and rich

    def signature(self, case, obs, clause):
        cond = 'any'
        if clause in ('script_terminates', 'sync_barrier_holds'):
            cond = D.case_kind(case)
        elif obs and obs.get('launch_rc') == -1 and D.case_kind(case) != 'other':
            cond = 'launch-timeout-' + D.case_kind(case)
        elif clause == 'env_described' or clause == 'argv_exact':
            vals = [v for _, v in case['env']] if clause == 'env_described' else case['args']
            if any('"' in v for v in vals):
                cond = 'value-with-double-quote'
            elif any('\\' in v for v in vals):
                cond = 'value-with-backslash'
            elif any(special(v) for v in vals):
                cond = 'value-with-shell-special-character'
            else:
                cond = 'plain-values'
        elif clause == 'rp_env_complete':
            bad = set()
            for r, ro in enumerate((obs or {}).get('ranks') or []):
                if ro['probe']:
                    e = dict(ro['probe']['env'])
                    want = {'RP_TASK_ID': case['uid'], 'RP_TASK_NAME': case.get('name') or case['uid'],
                            'RP_PILOT_ID': D.PID, 'RP_SESSION_ID': D.SID, 'RP_RESOURCE': D.RESOURCE,
                            'RP_RANK': str(r), 'RP_RANKS': str(case['ranks']),
                            'RP_CORES_PER_RANK': str(case['cpr']), 'RP_REGISTRY_ADDRESS': D.REG_ADDR,
                            'RP_CONTROL_PUB_ADDRESS': D.PUB_ADDR, 'RP_CONTROL_SUB_ADDRESS': D.SUB_ADDR}
                    bad |= {k for k, v in want.items() if e.get(k) != v}
            cond = 'vars=' + ','.join(sorted(bad)) if bad else 'other-variable'
        elif clause in ('output_files', 'executable_runs', 'exit_code_rule', 'failing_pre_blocks_exec',
                        'per_rank_only_on_rank', 'pre_before_post_after', 'cwd_sandbox'):
            names = [case.get(k) for k in ('stdout', 'stderr') if case.get(k)]
            if obs and any(r['probe'] and r['probe']['args'] != case['args'] for r in obs.get('ranks') or []):
                cond = 'argv-differs'
            elif any(special(n) for n in names):
                cond = 'output-name-with-shell-special-character'
            elif any('"' in v or '\\' in v for _, v in case['env']):
                cond = 'env-value-with-double-quote-or-backslash'
            elif case['ranks'] > 1:
                cond = 'multi-rank'
            else:
                cond = 'single-rank'
        return '%s:%s:%s' % (clause, SITES.get(clause, '?'), cond)

    shrink_rounds = 0

    def shrink(self, case):
        """smaller variants; the total shrinking effort of one run is bounded (a broken generator breaks
        many clauses at once, and every candidate costs a bash run plus a coqc start)"""
        self.shrink_rounds += 1
        if self.shrink_rounds > 14:
            return
        n = 0
        for c in self._shrink(case):
            n += 1
            if n > 24:
                return
            yield c

    def _shrink(self, case):
        c = case
        for i in range(len(c['args'])):
            yield dict(c, args=c['args'][:i] + c['args'][i + 1:])
        for i, a in enumerate(c['args']):
            if len(a) > 1:
                for b in (a[:len(a) // 2], a[len(a) // 2:], a[1:], a[:-1]):
                    yield dict(c, args=c['args'][:i] + [b] + c['args'][i + 1:])
        for i in range(len(c['env'])):
            yield dict(c, env=c['env'][:i] + c['env'][i + 1:])
        for i, (k, v) in enumerate(c['env']):
            if len(v) > 1:
                for b in (v[:len(v) // 2], v[len(v) // 2:], v[1:], v[:-1]):
                    yield dict(c, env=c['env'][:i] + [[k, b]] + c['env'][i + 1:])
        if c['ranks'] > 1:
            n = c['ranks'] - 1
            yield dict(c, ranks=n, rcs=c['rcs'][:n], gpus=None if c.get('gpus') is None else c['gpus'][:n],
                       order=[r for r in c['order'] if r < n] if c.get('order') else None)
        for key in ('pre', 'post', 'pre_launch', 'post_launch', 'task_pre_exec'):
            for i in range(len(c[key])):
                yield dict(c, **{key: c[key][:i] + c[key][i + 1:]})
        for key, val in (('stdout', None), ('stderr', None), ('name', None), ('omp', False), ('cuda', False),
                         ('mpi', False), ('sync', False), ('startup_to', False), ('prof', False), ('gpr_q', 0),
                         ('gpus', None), ('exe', 'probe'), ('uid', 'task.000000'), ('cpr', 1)):
            if c.get(key) != val:
                yield dict(c, **{key: val})
        if any(c['rcs']):
            yield dict(c, rcs=[0] * len(c['rcs']))
        for key in ('stdout', 'stderr'):
            v = c.get(key)
            if v and len(v) > 1 and not v.startswith('/'):
                for b in (v[:len(v) // 2], v[len(v) // 2:], v[1:], v[:-1]):
                    if b and b != c.get('stderr' if key == 'stdout' else 'stdout'):
                        yield dict(c, **{key: b})

    def distribution(self, results):
        d = dict(cases=len(results), ranks={}, gen_errors=0, with_per_rank_entries=0, with_failing_pre=0,
                 with_failing_post=0, exe_nonzero=0, special_args=0, special_env_values=0, special_output_names=0,
                 sync=0, executable_ran=0, launch_timeouts=0, prescribed_arrival_order=0, max_script_wall_s=0,
                 launch_timeout_s=D.LAUNCH_TIMEOUT, not_run={})
        for r in results:
            c, o = r['case'], r['obs']
            d['ranks'][str(c['ranks'])] = d['ranks'].get(str(c['ranks']), 0) + 1
            if o is not None and o.get('not_run'):
                d['not_run'][o['not_run']] = d['not_run'].get(o['not_run'], 0) + 1
                continue
            if o is None or o.get('gen_error'):
                d['gen_errors'] += 1
                continue
            d['launch_timeouts'] += (o.get('launch_rc') == -1)
            d['prescribed_arrival_order'] += bool(c.get('order') and c['sync'] and c['ranks'] > 1)
            d['max_script_wall_s'] = max(d['max_script_wall_s'], o.get('wall') or 0)

            def cmds(es):
                for e in es:
                    if 'all' in e:
                        yield e['all']
                    else:
                        for _, cs in e['per']:
                            for x in cs:
                                yield x
            d['with_per_rank_entries'] += any('per' in e for e in c['pre'] + c['post'])
            d['with_failing_pre'] += any(x[0] == 'stub' and x[2] for x in cmds(c['pre']))
            d['with_failing_post'] += any(x[0] == 'stub' and x[2] for x in cmds(c['post']))
            d['exe_nonzero'] += any(c['rcs'])
            d['special_args'] += any(special(a) for a in c['args'])
            d['special_env_values'] += any(special(v) for _, v in c['env'])
            d['special_output_names'] += any(special(c.get(k) or 'x') for k in ('stdout', 'stderr'))
            d['sync'] += bool(c['sync'])
            d['executable_ran'] += any(x['probe'] is not None for x in o['ranks'])
        for kind, n in sorted(d['not_run'].items()):
            # never silent: these cases were generated but their scripts were not executed
            print('NOT-RUN property=C10 kind=%s cases=%d (after %d launch timeouts of this kind the remaining cases of '
                  'the kind are skipped; the violation is reported with the inputs that did run)' % (kind, n, D.BREAKER_N))
        if d['not_run']:
            d['not_run_reason'] = ('after %d launch timeouts (%.0f s each) of one kind of case, further cases of that '
                                   'kind are not executed in this run' % (D.BREAKER_N, D.LAUNCH_TIMEOUT))
        return d

    # with pre_exec_sync no rank may start the executable before every rank has finished its pre_exec commands:
    # checked on the global (cross-rank) order of the trace lines
    def extra_checks(self, ctx):
        out = []
        for r in ctx['results']:
            c, o = r['case'], r['obs']
            if not o or o.get('not_run') or o.get('gen_error') or not c['sync'] or c['ranks'] < 2:
                continue
            if not gate_ok(c) or o.get('launch_rc') == -1:
                continue
            g = o.get('gtrace') or []
            first_start = next((i for i, x in enumerate(g) if x.endswith(' P:rank_start')), None)
            if first_start is None:
                continue
            arrived = {x.split(' ')[0] for x in g[:first_start] if x.endswith(' P:exec_pre')}
            missing = [str(k) for k in range(c['ranks']) if str(k) not in arrived]
            if missing:
                out.append(('sync_barrier_holds', c, o,
                            'rank %s started the executable (rank_start) before rank(s) %s had even begun their '
                            'pre_exec section: %s' % (g[first_start].split(' ')[0], ','.join(missing), g[:first_start + 1])))
                break
        return out


PROP = C10()
