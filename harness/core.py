"""Core of the verification harness: Coq build, case evaluation inside Coq,
implementation runs, verdicts, replay files, known findings, evidence.

Every property module (harness/cXX.py) exposes a subclass of `Prop`; `run_check`
executes the decision procedure of DESIGN.md section 2.2.
"""
import hashlib
import json
import os
import random
import re
import shutil
import subprocess
import sys
import time
import traceback

VERIF   = os.path.dirname(os.path.dirname(os.path.abspath(__file__)))
REPO    = os.environ.get('VERIF_REPO', '/repo')
COQ     = os.path.join(VERIF, 'coq')
PY      = '/venv/bin/python'
NPROC   = int(os.environ.get('VERIF_JOBS', '16'))
SCRATCH_ROOT = os.path.join(VERIF, '.scratch')

KERNEL_TB = ('Coq 8.16.1 kernel (coqc, full .vo build, no -vos); vm_compute used for finite '
             'table checks and for evaluating the model on generated cases; no native_compute')


# ------------------------------------------------------------------------------
# importing the implementation
#
def rp_import():
    """Import radical.pilot from REPO/src (see DESIGN.md section 3)."""
    src = os.path.join(REPO, 'src')
    if src not in sys.path:
        sys.path.insert(0, src)
    os.environ.setdefault('RADICAL_PILOT_VERIF', '1')
    import radical.utils as ru
    if not getattr(ru, '_verif_patched', False):
        orig = ru.get_version

        def get_version(*a, **k):
            try:
                return orig(*a, **k)
            except Exception:
                return ('0.0', '0.0', '', '', '0.0')
        ru.get_version = get_version
        ru._verif_patched = True
    import radical.pilot as rp
    assert os.path.realpath(rp.__file__).startswith(os.path.realpath(src)), \
        'radical.pilot imported from %s, not from %s' % (rp.__file__, src)
    return rp


# ------------------------------------------------------------------------------
# scratch space (never /tmp)
#
class Scratch:
    def __init__(self, tag):
        os.makedirs(SCRATCH_ROOT, exist_ok=True)
        self.path = os.path.join(SCRATCH_ROOT, '%s-%d' % (tag, os.getpid()))
        shutil.rmtree(self.path, ignore_errors=True)
        os.makedirs(self.path)

    def __enter__(self):
        return self.path

    def __exit__(self, *a):
        shutil.rmtree(self.path, ignore_errors=True)


# ------------------------------------------------------------------------------
# Coq build
#
def run(cmd, cwd=None, timeout=600, env=None, inp=None):
    try:
        p = subprocess.run(cmd, cwd=cwd, timeout=timeout, env=env, input=inp,
                           stdout=subprocess.PIPE, stderr=subprocess.STDOUT, text=True)
        return p.returncode, p.stdout
    except subprocess.TimeoutExpired as e:
        out = e.stdout or ''
        if isinstance(out, bytes):
            out = out.decode('utf8', 'replace')
        return 124, out + '\nTIMEOUT after %ss: %s' % (timeout, cmd)


def run_translators(names):
    """Regenerate coq/Gen/*.v from REPO.  Returns list of error strings."""
    errs = []
    for n in names:
        env = dict(os.environ, VERIF_REPO=REPO)
        rc, out = run([PY, os.path.join(VERIF, 'translators', n + '.py')], cwd=VERIF, env=env, timeout=120)
        if rc != 0:
            errs.append('translator %s: %s' % (n, out.strip().splitlines()[-1] if out.strip() else 'rc=%d' % rc))
    return errs


def all_translators():
    d = os.path.join(VERIF, 'translators')
    return sorted(f[:-3] for f in os.listdir(d) if f.endswith('.py') and f != 'common.py')


def coq_makefile():
    """(Re)generate _CoqProject (all .v under coq/ except scratch) and the Makefile."""
    files = []
    for root, dirs, fs in os.walk(COQ):
        dirs.sort()
        for f in sorted(fs):
            if f.endswith('.v'):
                files.append(os.path.relpath(os.path.join(root, f), COQ))
    text = '-R . RP\n' + '\n'.join(sorted(files)) + '\n'
    proj = os.path.join(COQ, '_CoqProject')
    old = open(proj).read() if os.path.exists(proj) else None
    if old != text or not os.path.exists(os.path.join(COQ, 'Makefile')):
        with open(proj, 'w') as f:
            f.write(text)
        run(['coq_makefile', '-f', '_CoqProject', '-o', 'Makefile'], cwd=COQ)


def all_targets(prop, attr):
    """The check's own targets plus everything the checks it embeds (harness/sides.py) need for their case files."""
    out = list(getattr(prop, attr, None) or [])
    for sp in getattr(prop, 'side_specs', None) or []:
        for t in (list(getattr(sp.prop, 'extra_targets', None) or []) + list(getattr(sp.prop, 'model_targets', None) or [])
                  + all_targets(sp.prop, attr)):
            if t not in out:
                out.append(t)
    return out


def coq_make(targets, timeout=1500):
    """make the given .vo targets (relative to coq/).  Returns (ok, log)."""
    coq_makefile()
    rc, out = run(['make', '-j%d' % NPROC] + list(targets), cwd=COQ, timeout=timeout)
    return rc == 0, out


def coq_props(props_file, timeout=600):
    """Compile a Props file on its own, capturing `Print Assumptions`.

    Returns dict(ok, theorems=[names], assumptions={name: text}, log)."""
    path = os.path.join(COQ, props_file)
    src = open(path).read()
    theorems = re.findall(r'^\s*Theorem\s+([A-Za-z0-9_\']+)', src, re.M)
    rc, out = run(['coqc', '-R', '.', 'RP', props_file], cwd=COQ, timeout=timeout)
    printed = re.findall(r'^\s*Print Assumptions\s+([A-Za-z0-9_\']+)\s*\.', src, re.M)
    blocks = []
    cur = None
    for line in out.splitlines():
        if line.startswith('Closed under the global context'):
            blocks.append('Closed under the global context')
            cur = None
        elif line.startswith('Axioms:'):
            cur = ['Axioms:']
            blocks.append(cur)
        elif cur is not None and (line.startswith(' ') or line.strip() == '' or ':' in line):
            cur.append(line)
    blocks = ['\n'.join(b) if isinstance(b, list) else b for b in blocks]
    assumptions = dict(zip(printed, blocks))
    return dict(ok=(rc == 0), theorems=theorems, assumptions=assumptions, log=out)


def forbidden_scan():
    """Refuse a development that declares axioms or admits anything."""
    bad = []
    pat = re.compile(r'^\s*(Axiom|Axioms|Parameter|Parameters|Conjecture|Admitted|Admit Obligations|'
                     r'Unset Guard Checking|Unset Positivity Checking|Unset Universe Checking)\b|\badmit\b|bypass_check')
    for root, _, fs in os.walk(COQ):
        for f in fs:
            if f.endswith('.v'):
                for i, line in enumerate(open(os.path.join(root, f), errors='replace')):
                    if line.lstrip().startswith('(*'):
                        continue
                    if pat.search(line):
                        bad.append('%s:%d: %s' % (os.path.relpath(os.path.join(root, f), COQ), i + 1, line.strip()))
    return bad


# ------------------------------------------------------------------------------
# evaluating rows of booleans inside Coq
#
def coq_eval_rows(scratch, header, rows, shard=400, timeout=900, tag='cases'):
    """rows: list of Coq expressions of type `list bool`.  Returns list of
    lists of bool, or raises RuntimeError with Coq's log."""
    if not rows:
        return []
    shards = [rows[i:i + shard] for i in range(0, len(rows), shard)]
    procs = []
    for k, sh in enumerate(shards):
        fn = os.path.join(scratch, '%s_%d.v' % (tag, k))
        with open(fn, 'w') as f:
            f.write('From Coq Require Import ZArith List Bool String.\nImport ListNotations.\n')
            f.write('From RP Require Import Common.Eqb.\n')
            f.write(header + '\n')
            f.write('Definition the_rows : list (list bool) := [\n')
            f.write(';\n'.join(sh))
            f.write('\n].\n')
            f.write('Eval vm_compute in (rows the_rows).\n')
        procs.append((fn, None))
    results = [None] * len(shards)
    running = []
    idx = 0
    t0 = time.time()
    while idx < len(shards) or running:
        while idx < len(shards) and len(running) < NPROC:
            fn = procs[idx][0]
            p = subprocess.Popen(['coqc', '-R', COQ, 'RP', '-w', '-all', fn], cwd=scratch,
                                 stdout=subprocess.PIPE, stderr=subprocess.STDOUT, text=True)
            running.append((idx, p))
            idx += 1
        for item in list(running):
            k, p = item
            if p.poll() is not None:
                out = p.stdout.read()
                running.remove(item)
                if p.returncode != 0:
                    for _, q in running:
                        q.kill()
                    raise RuntimeError('coqc failed on %s:\n%s' % (procs[k][0], out[-3000:]))
                m = re.search(r'=\s*"([01;]*)"', out)
                if not m:
                    raise RuntimeError('unparseable coqc output:\n%s' % out[-2000:])
                rs = [r for r in m.group(1).split(';')]
                if rs and rs[-1] == '':
                    rs.pop()
                results[k] = [[c == '1' for c in r] for r in rs]
        if time.time() - t0 > timeout:
            for _, q in running:
                q.kill()
            raise RuntimeError('coqc timeout evaluating cases')
        time.sleep(0.02)
    flat = []
    for k, sh in enumerate(shards):
        if len(results[k]) != len(sh):
            raise RuntimeError('row count mismatch in shard %d' % k)
        flat.extend(results[k])
    return flat


def coq_eval_text(scratch, header, expr, timeout=120):
    """Evaluate one expression with vm_compute and return Coq's printed text."""
    fn = os.path.join(scratch, 'show_%d.v' % random.randrange(1 << 30))
    with open(fn, 'w') as f:
        f.write('From Coq Require Import ZArith List Bool String.\nImport ListNotations.\n')
        f.write(header + '\n')
        f.write('Eval vm_compute in (%s).\n' % expr)
    rc, out = run(['coqc', '-R', COQ, 'RP', '-w', '-all', fn], cwd=scratch, timeout=timeout)
    return out.strip()


# ------------------------------------------------------------------------------
# known findings
#
def load_known():
    """Recorded findings: known_findings.json plus the per-property fragments
    props/Cxx.findings.json it is assembled from (tools/mkmanifest.py)."""
    out = []
    p = os.path.join(VERIF, 'known_findings.json')
    if os.path.exists(p):
        out.extend(json.load(open(p)).get('findings', []))
    d = os.path.join(VERIF, 'props')
    for f in sorted(os.listdir(d)) if os.path.isdir(d) else []:
        if f.endswith('.findings.json'):
            for k in json.load(open(os.path.join(d, f))).get('findings', []):
                if k not in out:
                    out.append(k)
    return out


def known_match(prop_id, signature, known):
    for k in known:
        if k.get('property') == prop_id and k.get('signature') == signature:
            return k
    return None


# ------------------------------------------------------------------------------
# property interface
#
class Prop:
    id = None
    title = ''
    props_files = []          # e.g. ['Props/C06.v']
    translators = []          # names under translators/
    header = ''               # Coq imports for case files

    def header_for(self, case):
        return self.header
    clauses = []              # names of the oracle bits after the leading 'corr' bit
    level = 'proof'
    trusted = []              # extra trusted-base strings
    assumptions = []
    rule = ''
    impl_timeout = 900

    # --- to be provided -------------------------------------------------------
    def cases(self, rng, tier):
        raise NotImplementedError

    def corpus(self):
        """Minimised cases kept from earlier failures; always run first."""
        d = os.path.join(VERIF, 'corpus', self.id)
        out = []
        if os.path.isdir(d):
            for f in sorted(os.listdir(d)):
                if f.endswith('.json'):
                    out.append(json.load(open(os.path.join(d, f)))['case'])
        return out

    def run_impl(self, case):
        """Run the real code on `case`; return a JSON-able observation."""
        raise NotImplementedError

    def coq_row(self, case, obs):
        """Coq expr : list bool = [model agrees with obs; oracle clause ...]."""
        raise NotImplementedError

    def model_show(self, case):
        """Coq expression whose value is the model's answer (for replay files)."""
        return None

    def nontrivial(self, case, obs):
        return True

    def signature(self, case, obs, clause):
        return '%s' % clause

    def shrink(self, case):
        """Yield smaller variants of `case`."""
        return []

    def describe(self, case):
        return case

    def extra_checks(self, ctx):
        """Optional python-side checks; return list of (clause, case, obs, detail)."""
        return []


# ------------------------------------------------------------------------------
# implementation runs in a child process (a hanging / crashing mutant must not
# take the harness down)
#
def impl_child(modname, infile, outfile):
    import importlib
    mod = importlib.import_module('harness.' + modname)
    prop = mod.PROP
    cases = json.load(open(infile))
    if hasattr(prop, 'impl_setup'):
        prop.impl_setup()
    out = []
    for c in cases:
        try:
            out.append({'ok': True, 'obs': prop.run_impl(c)})
        except BaseException as e:            # noqa
            out.append({'ok': False, 'err': '%s: %s' % (type(e).__name__, e),
                        'tb': traceback.format_exc()[-1500:]})
    json.dump(out, open(outfile, 'w'))


def run_impl_cases(prop, cases, scratch, jobs=None):
    """Run prop.run_impl on all cases, in `jobs` child processes."""
    jobs = jobs or min(NPROC, max(1, len(cases) // 20))
    chunks = [cases[i::jobs] for i in range(jobs)]
    procs = []
    env = dict(os.environ, PYTHONPATH=VERIF + ':' + os.path.join(REPO, 'src'), PYTHONHASHSEED='0',
               VERIF_REPO=REPO, RADICAL_PILOT_VERIF='1')
    for k, ch in enumerate(chunks):
        inf = os.path.join(scratch, 'impl_in_%d.json' % k)
        outf = os.path.join(scratch, 'impl_out_%d.json' % k)
        json.dump(ch, open(inf, 'w'))
        wd = os.path.join(scratch, 'wd_%d' % k)
        os.makedirs(wd, exist_ok=True)
        p = subprocess.Popen([PY, '-c', 'import sys; from harness.core import impl_child; '
                              'impl_child(%r, %r, %r)' % (prop.module, inf, outf)],
                             cwd=wd, env=env, stdout=subprocess.PIPE, stderr=subprocess.STDOUT, text=True)
        procs.append((k, p, outf))
    res_chunks = {}
    deadline = time.time() + prop.impl_timeout
    for k, p, outf in procs:
        try:
            out, _ = p.communicate(timeout=max(1, deadline - time.time()))
        except subprocess.TimeoutExpired:
            p.kill()
            out = 'TIMEOUT'
        if os.path.exists(outf):
            res_chunks[k] = json.load(open(outf))
        else:
            res_chunks[k] = [{'ok': False, 'err': 'impl child died: %s' % (out or '')[-800:]}] * len(chunks[k])
    res = [None] * len(cases)
    for k in range(jobs):
        for j, r in enumerate(res_chunks[k]):
            res[k + j * jobs] = r
    return res


# ------------------------------------------------------------------------------
# the decision procedure
#
def case_hash(case):
    return hashlib.sha1(json.dumps(case, sort_keys=True).encode()).hexdigest()[:12]


class Ctx:
    pass


def evaluate(prop, cases, scratch):
    """Run impl + model/oracle on cases.  Returns list of dict(case, obs, bits, err)."""
    impl = run_impl_cases(prop, cases, scratch)
    rows, idx = [], []
    results = []
    for i, (c, r) in enumerate(zip(cases, impl)):
        if not r['ok']:
            results.append(dict(case=c, obs=None, bits=None, err=r['err'], tb=r.get('tb')))
            continue
        results.append(dict(case=c, obs=r['obs'], bits=None, err=None))
        rows.append(prop.coq_row(c, r['obs']))
        idx.append(i)
    # a property may evaluate different kinds of cases under different imports
    groups = {}
    for k, i in enumerate(idx):
        groups.setdefault(prop.header_for(cases[i]), []).append(k)
    for gi, (hdr, ks) in enumerate(groups.items()):
        bits = coq_eval_rows(scratch, hdr, [rows[k] for k in ks], tag='cases%d' % gi if gi else 'cases')
        for k, b in zip(ks, bits):
            results[idx[k]]['bits'] = b
    return results


def failing_clauses(prop, r):
    """Names of violated oracle clauses of one result (not the corr bit)."""
    if r['bits'] is None:
        return ['impl_error']
    return [n for n, b in zip(prop.clauses, r['bits'][1:]) if not b]


def shrink_case(prop, case, clause, scratch, budget=60):
    """Greedy shrinking while the same clause stays violated on the implementation."""
    best = case
    steps = 0
    improved = True
    while improved and steps < budget:
        improved = False
        cands = list(prop.shrink(best))[:40]
        if not cands:
            break
        rs = evaluate(prop, cands, scratch)
        steps += 1
        for r in rs:
            if clause in failing_clauses(prop, r):
                best = r['case']
                improved = True
                break
    return best


def write_replay(prop, kind, payload):
    os.makedirs(os.path.join(VERIF, 'replays'), exist_ok=True)
    h = hashlib.sha1(json.dumps(payload, sort_keys=True, default=str).encode()).hexdigest()[:10]
    path = os.path.join(VERIF, 'replays', '%s-%s-%s.json' % (prop.id, kind, h))
    payload = dict(payload, property=prop.id, kind=kind, repo=REPO)
    json.dump(payload, open(path, 'w'), indent=1, default=str)
    return path


def run_check(prop, tier='quick', seed=0, replay=None):
    """One check.  The code under test leaves temporary files and directories behind (tmgr input staging, the pilot
    launcher, ...): for the time of the check TMPDIR points into the check's own scratch area, which is removed at
    the end -- nothing is left under /tmp."""
    import tempfile
    tmpd = os.path.join(VERIF, '.scratch', 'tmp-%s-%d' % (prop.id, os.getpid()))
    os.makedirs(tmpd, exist_ok=True)
    old_tmp = os.environ.get('TMPDIR')
    os.environ['TMPDIR'] = tmpd
    tempfile.tempdir = None
    try:
        return _run_check(prop, tier=tier, seed=seed, replay=replay)
    finally:
        if old_tmp is None:
            os.environ.pop('TMPDIR', None)
        else:
            os.environ['TMPDIR'] = old_tmp
        tempfile.tempdir = None
        shutil.rmtree(tmpd, ignore_errors=True)


def _run_check(prop, tier='quick', seed=0, replay=None):
    t0 = time.time()
    rng = random.Random(seed)
    known = load_known()
    violations = []       # (line, replay)
    known_lines = []
    broken = []           # descriptions of broken obligations / correspondences
    notes = []

    with Scratch(prop.id) as scratch:
        if replay:
            data = json.load(open(replay))
            case = data.get('case')
            if case is None:
                print('replay file names no case: %s' % data.get('what'))
                return 0
            rs = evaluate(prop, [case], scratch)
            r = rs[0]
            print(json.dumps(dict(case=prop.describe(case), impl=r['obs'], err=r['err'],
                                  bits=dict(zip(['corr'] + prop.clauses, r['bits'] or []))), indent=1, default=str))
            ms = prop.model_show(case)
            if ms:
                print('model:', coq_eval_text(scratch, prop.header_for(case), ms))
            return 0

        # 1. regenerate
        terrs = run_translators(prop.translators)
        for e in terrs:
            broken.append(dict(what='translator failed (fail-closed): ' + e, theorem=None))

        # 2. build + proof obligations
        bad = forbidden_scan()
        if bad:
            broken.append(dict(what='forbidden construct in development: ' + '; '.join(bad[:5]), theorem=None))
        targets = [f[:-2] + '.vo' for f in prop.props_files] + all_targets(prop, 'extra_targets')
        ok, log = coq_make(targets)
        obligations, discharged, assm = 0, 0, {}
        checker_cmd = 'cd /verif/coq && make %s && coqc -R . RP %s' % (' '.join(targets), ' '.join(prop.props_files))
        model_ok = True
        if not ok:
            m = re.search(r'File "\./([^"]+)", line (\d+)', log)
            where = '%s:%s' % (m.group(1), m.group(2)) if m else 'unknown'
            errtxt = log[log.find('Error'):][:600] if 'Error' in log else log[-600:]
            broken.append(dict(what='Coq build failed at %s: %s' % (where, errtxt), theorem=where))
            # can the model still be evaluated?
            mt = all_targets(prop, 'model_targets')
            if mt:
                model_ok, _ = coq_make(mt)
            else:
                model_ok = False
        for pf in prop.props_files:
            src = open(os.path.join(COQ, pf)).read()
            ths = re.findall(r'^\s*Theorem\s+([A-Za-z0-9_\']+)', src, re.M)
            obligations += len(ths)
            if ok:
                pr = coq_props(pf)
                if pr['ok']:
                    discharged += len(ths)
                    assm.update(pr['assumptions'])
                else:
                    broken.append(dict(what='Props file %s does not check: %s' % (pf, pr['log'][-500:]), theorem=pf))

        # 3/4. correspondence + oracle on the implementation
        cases = []
        seen = set()
        for c in prop.corpus() + list(prop.cases(rng, tier)):
            h = case_hash(c)
            if h not in seen:
                seen.add(h)
                cases.append(c)
        results = []
        if model_ok:
            try:
                results = evaluate(prop, cases, scratch)
            except RuntimeError as e:
                broken.append(dict(what='model evaluation failed: %s' % str(e)[-800:], theorem=None))
        else:
            notes.append('model does not build; correspondence not evaluated')

        n_eval = len(results)
        n_nontriv = 0
        corr_bad = []
        seen_sig = set()
        for r in results:
            if r['err'] is not None:
                # the harness could not drive the implementation on this case
                corr_bad.append((r, 'implementation run failed: %s' % r['err']))
                continue
            if prop.nontrivial(r['case'], r['obs']):
                n_nontriv += 1
            fc = failing_clauses(prop, r)
            for cl in fc:
                sig = prop.signature(r['case'], r['obs'], cl)
                if sig in seen_sig:
                    continue
                seen_sig.add(sig)
                k = known_match(prop.id, sig, known)
                if k:
                    known_lines.append('KNOWN-FINDING: property=%s %s' % (prop.id, k['what']))
                    continue
                small = shrink_case(prop, r['case'], cl, scratch)
                rs = evaluate(prop, [small], scratch)[0]
                ms = prop.model_show(small)
                path = write_replay(prop, 'violation', dict(
                    clause=cl, signature=sig, case=small, described=prop.describe(small),
                    impl_observation=rs['obs'], impl_error=rs['err'],
                    bits=dict(zip(['corr'] + prop.clauses, rs['bits'] or [])),
                    model=coq_eval_text(scratch, prop.header_for(small), ms) if ms else None,
                    what='oracle clause %s is false on the implementation trace' % cl))
                violations.append('VIOLATION property=%s replay=%s' % (prop.id, path))
            if not fc and r['bits'] is not None and not r['bits'][0]:
                corr_bad.append((r, 'model and implementation disagree'))

        for (clause, case, obs, detail) in prop.extra_checks(dict(results=results, scratch=scratch, rng=rng, tier=tier)):
            sig = prop.signature(case, obs, clause)
            if sig in seen_sig:
                continue
            seen_sig.add(sig)
            k = known_match(prop.id, sig, known)
            if k:
                known_lines.append('KNOWN-FINDING: property=%s %s' % (prop.id, k['what']))
                continue
            path = write_replay(prop, 'violation', dict(clause=clause, signature=sig, case=case,
                                                        impl_observation=obs, what=detail))
            violations.append('VIOLATION property=%s replay=%s' % (prop.id, path))

        if corr_bad and not violations:
            r, why = corr_bad[0]
            ms = prop.model_show(r['case']) if r['bits'] is not None else None
            broken.append(dict(
                what='correspondence %s no longer checks (%d of %d cases): %s' % (
                    getattr(prop, 'corr_name', prop.id + ' model vs implementation'), len(corr_bad), n_eval, why),
                case=r['case'], impl_observation=r['obs'], impl_error=r['err'], tb=r.get('tb'),
                model=coq_eval_text(scratch, prop.header_for(r['case']), ms) if ms else None, theorem=None))

        # 5. a broken obligation / correspondence without a failing input
        if broken and not violations:
            # widen the search once before giving up on a concrete input
            if tier == 'quick' and model_ok and not os.environ.get('VERIF_NO_WIDEN'):
                extra = []
                rng2 = random.Random(seed + 7919)
                for c in prop.cases(rng2, 'thorough'):
                    h = case_hash(c)
                    if h not in seen:
                        seen.add(h)
                        extra.append(c)
                    if len(extra) >= getattr(prop, 'widen_cases', 2000):
                        break
                try:
                    res2 = evaluate(prop, extra, scratch) if extra else []
                except RuntimeError:
                    res2 = []
                n_eval += len(res2)
                for r in res2:
                    if r['err'] is None:
                        fc = failing_clauses(prop, r)
                        new = [cl for cl in fc if not known_match(prop.id, prop.signature(r['case'], r['obs'], cl), known)]
                        if new:
                            cl = new[0]
                            small = shrink_case(prop, r['case'], cl, scratch)
                            rs = evaluate(prop, [small], scratch)[0]
                            path = write_replay(prop, 'violation', dict(
                                clause=cl, case=small, described=prop.describe(small),
                                impl_observation=rs['obs'], impl_error=rs['err'],
                                broken=[b['what'] for b in broken],
                                what='found while searching after a broken obligation: clause %s false' % cl))
                            violations.append('VIOLATION property=%s replay=%s' % (prop.id, path))
                            break
            if not violations:
                path = write_replay(prop, 'unproved', dict(
                    what='no failing input found; the following no longer checks',
                    broken=broken, case=broken[-1].get('case')))
                violations.append('VIOLATION property=%s replay=%s no-failing-input-found' % (prop.id, path))

        # 6. evidence
        samples = []
        for r in results[:3]:
            samples.append(dict(case=prop.describe(r['case']), impl_observation=r['obs'],
                                bits=dict(zip(['corr'] + prop.clauses, r['bits'] or []))))
        for pf in prop.props_files:
            samples.append(dict(obligations_file=pf, theorems=re.findall(
                r'^\s*Theorem\s+([A-Za-z0-9_\']+)', open(os.path.join(COQ, pf)).read(), re.M)))
        tb = [KERNEL_TB]
        for name, a in sorted(assm.items()):
            tb.append('Print Assumptions %s: %s' % (name, ' '.join(a.split())))
        tb.extend(prop.trusted)
        dist = prop.distribution(results) if hasattr(prop, 'distribution') else None
        ev = dict(
            property_id=prop.id, tier=tier, seed=seed, level=prop.level,
            coverage=dict(
                obligations=obligations, discharged=discharged, checker_cmd=checker_cmd,
                trusted_base=tb, evaluations=n_eval, distinct_nontrivial=n_nontriv,
                rule=prop.rule, samples=samples,
                correspondence_disagreements=len(corr_bad),
                input_distribution=dist, exhaustive=bool(getattr(prop, 'exhaustive', False)),
                broken=[b['what'] for b in broken], notes=notes,
                known_findings_hit=known_lines),
            assumptions=prop.assumptions, wall_s=round(time.time() - t0, 2),
            violations=len(violations))
        os.makedirs(os.path.join(VERIF, 'evidence'), exist_ok=True)
        json.dump(ev, open(os.path.join(VERIF, 'evidence', prop.id + '.json'), 'w'), indent=1, default=str)

    for l in sorted(set(known_lines)):
        print(l)
    for v in violations:
        print(v)
    print('%s tier=%s seed=%d obligations=%d discharged=%d cases=%d nontrivial=%d corr_disagreements=%d wall=%.1fs'
          % (prop.id, tier, seed, obligations, discharged, n_eval, n_nontriv, len(corr_bad), time.time() - t0))
    return 1 if violations else 0
