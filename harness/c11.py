"""C11 -- staging directives move the named data to the named place.

Implementation under test (real code, Local staging backend, scratch-dir
sandboxes; driver in harness/c11_impl.py): staging_directives.expand_description
/ expand_staging_directives / complete_url, StagingHelper + StagingHelper_Local,
tmgr staging_input Default.work/_handle_task, agent staging_input
Default.work/_work/_handle_task_staging, agent staging_output Default.work/
_handle_task_staging, tmgr staging_output Default.work/_handle_task, and the
real BaseComponent/ClientComponent/AgentComponent.advance.  A case is a bulk of
tasks run through all four stagers; observed are the expanded directives, the
published states of every task, input_staging after the run and the complete
file tree."""
import copy
import itertools

from . import coqlit as L
from . import core as _core
from .core import Prop, rp_import

# the rows of this property are large literals (two file trees per case): evaluate them in smaller shards so
# that all cores are used also in the quick tier
if not getattr(_core.coq_eval_rows, '_c11', False):
    _orig_eval_rows = _core.coq_eval_rows

    def _eval_rows(scratch, header, rows, shard=400, **kw):
        return _orig_eval_rows(scratch, header, rows, shard=min(shard, 56), **kw)
    _eval_rows._c11 = True
    _core.coq_eval_rows = _eval_rows

ACT = {'Transfer': 'Transfer', 'Copy': 'Copy', 'Link': 'Link', 'Move': 'Move', 'Tarball': 'Tarball'}
STATES = ['TMGR_STAGING_INPUT', 'AGENT_STAGING_INPUT_PENDING', 'AGENT_STAGING_INPUT', 'AGENT_SCHEDULING_PENDING',
          'AGENT_STAGING_OUTPUT', 'TMGR_STAGING_OUTPUT_PENDING', 'TMGR_STAGING_OUTPUT', 'DONE', 'FAILED', 'CANCELED']

SB = 'file://localhost/R/rsb'


def sandboxes(uid):
    return '(std_sb %s)' % L.string(uid)


def act(a):
    return ACT.get(a, 'OtherAction')


def path(p):
    cs = [c for c in p.split('/') if c]
    assert all(c != '.' for c in cs)
    return '(pp %s)' % L.string('/'.join(cs)) if cs else '[]'


def sdin(d):
    if isinstance(d, str):
        return '(SStr %s)' % L.string(d)
    bad = any(k not in ('source', 'target', 'action') for k in d)
    return '(SDict %s %s %s %s)' % (
        L.opt(L.string(d['source'])) if d.get('source') is not None else 'None',
        L.opt(L.string(d['target'])) if 'target' in d else 'None',
        L.opt(act(d['action'])) if 'action' in d else 'None',
        L.boolean(bad))


def sd(t):
    return '{| s_src := %s; s_tgt := %s; s_act := %s |}' % (L.string(t[0]), L.string(t[1]), act(t[2]))


def node(e):
    if e[1] == 'D':
        return 'D'
    if e[1] == 'F':
        return '(F (Plain %s))' % L.Z(e[2])
    if e[1] == 'T':
        if any(m[1] != 'F' for m in e[2]):
            return '(F (Plain %s))' % L.Z(-2)
        return '(F (Tar %s))' % L.lst([L.pair(path(m[0]), L.Z(m[2])) for m in e[2]])
    return '(F (Plain %s))' % L.Z(-1)


def tree(t):
    return L.lst(['(pp "R", D)'] + [L.pair(path('R/' + e[0]), node(e)) for e in t])


def xop(o):
    from .c11_impl import sbox_rel
    if o[0] == 'rm':
        return '(XRm %s)' % path('R/' + sbox_rel(o[1]) + '/' + o[2])
    return '(XMv %s %s)' % (path('R/' + sbox_rel(o[1]) + '/' + o[2]), path('R/' + sbox_rel(o[3]) + '/' + o[4]))


def tasks_in(case):
    """list of bulks, each a list of task_in records; uids number the tasks of the whole case"""
    from .c11_impl import known_contents, canon
    known = known_contents(case)
    bulks = {}
    for i, t in enumerate(case['tasks']):
        uid = 't%d' % i
        out = bulks.setdefault(t.get('bulk', 0), [])
        out.append('{| ti_uid := %s; ti_sb := %s; ti_in := %s; ti_out := %s; ti_soe := %s; ti_outcome := %s; '
                   'ti_exec := %s; ti_ops := %s |}' % (
                       L.string(uid), sandboxes(uid), L.lst([sdin(d) for d in t['in']]),
                       L.lst([sdin(d) for d in t['out']]), L.boolean(t.get('soe')), t['outcome'],
                       L.lst([L.pair(path(e[0]), L.Z(canon(known, e[1], e[2] if len(e) > 2 else None)))
                              for e in t.get('exec', [])]),
                       L.lst([xop(o) for o in t.get('ops', [])])))
    return L.lst([L.lst(bulks[b]) for b in sorted(bulks)])


def tobs(o):
    if 'exc' in o['expand']:
        e = '(inl %s)' % ('EValue' if o['expand']['exc'] == 'ValueError' else 'EOther')
    else:
        e = '(inr (%s, %s))' % (L.lst([sd(x) for x in o['expand']['in']]), L.lst([sd(x) for x in o['expand']['out']]))
    return '(%s, %s, %s)' % (e, L.lst(o['states']), L.lst([sd(x) for x in o.get('in_after', [])]))


# ------------------------------------------------------------------ generator
class Gen:
    def __init__(self, rng):
        self.r = rng
        self.k = 0

    def fresh(self, ext='.dat'):
        self.k += 1
        return 'x%d%s' % (self.k, ext)

    def loc(self, sbox, rel, uid, side_default):
        """a string naming <sandbox>/<rel>; several equivalent spellings"""
        r = self.r
        base = {'client': '/R/client', 'resource': '/R/rsb', 'session': '/R/rsb/s1', 'pilot': '/R/rsb/s1/p0',
                'task': '/R/rsb/s1/p0/' + uid}[sbox]
        forms = ['%s:///%s' % (sbox, rel)] * 4 + ['%s/%s' % (base, rel), 'file://localhost%s/%s' % (base, rel),
                                                  'endpoint://%s/%s' % (base, rel), '%s://%s' % (sbox, '/' + rel)]
        if sbox == side_default:
            forms += [rel] * 6 + ['pwd:///' + rel, './' + rel]
        return r.choice(forms)

    def case(self):
        r = self.r
        self.k = 0
        cid = itertools.count(1)
        files = []
        names = ['a.dat', 'b.dat', 'c.txt', 'sub/d.dat', 'sub/e.dat']
        if r.random() < 0.25:
            names.append('my data.txt')
        for n in r.sample(names, r.randint(1, 4)):
            files.append(['client', n, next(cid)])
        for sb, ns in (('pilot', ['sh.dat', 'lib/m.dat']), ('session', ['s.dat']), ('resource', ['r.dat'])):
            for n in ns:
                if r.random() < 0.5:
                    files.append([sb, n, next(cid)])
        dirs = []
        if r.random() < 0.3:
            dirs.append(['pilot', 'shared'])
        if r.random() < 0.3:
            dirs.append(['client', 'res'])
        ntasks = r.choice([1, 1, 2, 2, 3])
        tasks = []
        self.files = files
        self.linked, self.overwritten = set(), set()
        bulk = 0
        for i in range(ntasks):
            if i and r.random() < 0.35:
                bulk += 1                      # the next tasks arrive after the former ones are through
            t = self.task('t%d' % i, files, dirs, cid)
            t['bulk'] = bulk
            tasks.append(t)
        if r.random() < 0.4:
            self.collide(tasks, files, cid)
        if r.random() < 0.35:
            self.dirseq(tasks, files, dirs, cid)
        if r.random() < 0.2:
            self.dircopy(tasks, files, dirs, cid)
        if r.random() < 0.3:
            self.chain(tasks, files, cid)
        if r.random() < 0.3:
            self.tarsizes(tasks, files, cid)
        # real data: sizes around the block sizes of tar (512, 10240) and of buffered files (8192)
        for f in files:
            if len(f) == 3 and r.random() < 0.3:
                f.append(self.size())
        for t in tasks:
            for e in t['exec']:
                if len(e) == 2 and r.random() < 0.3:
                    e.append(self.size())
        return {'files': files, 'dirs': dirs, 'tasks': tasks}

    SIZES = [0, 1, 100, 511, 512, 513, 8191, 8192, 8193, 10240, 26112, 40000]

    def size(self):
        r = self.r
        return r.choice(self.SIZES) if r.random() < 0.8 else r.randint(0, 70000)

    def tarsizes(self, tasks, files, cid):
        """1-4 TARBALL directives of one task with sources of all sizes (the archive crosses block and buffer
        boundaries), targets in the task sandbox and -- outside the session sandbox -- in resource://, endpoint://,
        file:// and absolute spellings"""
        r = self.r
        self.k += 1
        k = self.k
        if r.random() < 0.6:
            ti = len(tasks)
            tasks.append({'in': [], 'out': [], 'outcome': 'DONE', 'soe': False, 'exec': [],
                          'bulk': tasks[-1]['bulk'] + (1 if r.random() < 0.3 else 0)})
        else:
            ti = r.randrange(len(tasks))
        t, uid = tasks[ti], 't%d' % ti
        for n in range(r.randint(1, 4)):
            sname = 'big%d_%d.dat' % (k, n)
            files.append(['client', sname, next(cid), self.size()])
            q = r.random()
            if q < 0.55:
                tgt = self.loc('task', r.choice(['', 'data/', 'a/b/']) + 'm%d_%d.dat' % (k, n), uid, 'task')
            elif q < 0.7:
                tgt = self.loc(r.choice(['pilot', 'session']), 'tar%d/m%d.dat' % (k, n), uid, 'none')
            else:
                rel = 'rsb/out%d/m%d.dat' % (k, n)
                tgt = r.choice(['resource:///out%d/m%d.dat' % (k, n), 'endpoint:///R/' + rel, '/R/' + rel,
                                'file://localhost/R/' + rel, 'file:///R/' + rel])
            t['in'].append({'source': self.loc('client', sname, uid, 'client'), 'target': tgt, 'action': 'Tarball'})
            if r.random() < 0.25:                                         # use the member later in the list
                t['in'].append({'source': tgt, 'target': self.loc('task', 'used%d_%d.dat' % (k, n), uid, 'task'),
                                'action': r.choice(['Copy', 'Link'])})

    def chain(self, tasks, files, cid):
        """dependent directives in one input list: a file is staged (TARBALL / TRANSFER / COPY) and later directives
        of the same list LINK / COPY / MOVE the staged file on (also: a copy of the copy)"""
        r = self.r
        self.k += 1
        k = self.k
        if r.random() < 0.6:
            ti = len(tasks)
            tasks.append({'in': [], 'out': [], 'outcome': r.choice(['DONE', 'DONE', 'FAILED']), 'soe': False,
                          'exec': [], 'bulk': tasks[-1]['bulk'] + (1 if r.random() < 0.3 else 0)})
        else:
            ti = r.randrange(len(tasks))
        t, uid = tasks[ti], 't%d' % ti
        root = r.choice(['Tarball', 'Tarball', 'Tarball', 'Transfer', 'Copy'])
        if root == 'Copy':
            sb, sname = r.choice(['pilot', 'session']), 'cfg%d.src' % k
        else:
            sb, sname = 'client', 'cfg%d.src' % k
        files.append([sb, sname, next(cid)])
        staged = r.choice(['in/cfg%d.dat', 'cfg%d.dat', 'a/b/cfg%d.dat']) % k
        src = self.loc(sb, sname, uid, 'client' if root != 'Copy' else 'none')
        tgt = self.loc('task', staged, uid, 'task')
        lst = t['in']
        d = {'source': src, 'target': tgt, 'action': root}
        lst.append(self.short(src, tgt) if root == 'Transfer' and r.random() < 0.5 else d)
        if root == 'Tarball' and r.random() < 0.4:                      # a second member of the same tarball
            files.append(['client', 'more%d.src' % k, next(cid)])
            lst.append({'source': self.loc('client', 'more%d.src' % k, uid, 'client'),
                        'target': self.loc('task', 'in/more%d.dat' % k, uid, 'task'), 'action': 'Tarball'})
        cur = staged
        for n in range(r.choice([1, 1, 2, 3])):
            a = r.choice(['Link', 'Copy', 'Copy', 'Move'])
            q = r.random()
            if q < 0.5:
                nsb, nrel = 'task', 'use%d_%d.dat' % (k, n)
            elif q < 0.8:
                nsb, nrel = 'pilot', 'shared%d/cfg_%d.dat' % (k, n)
            else:
                nsb, nrel = r.choice(['session', 'resource']), 'keep%d_%d.dat' % (k, n)
            d = {'source': self.loc('task', cur, uid, 'task'), 'target': self.loc(nsb, nrel, uid, 'task'), 'action': a}
            if r.random() < 0.12:
                lst.insert(max(0, len(lst) - 1), d)                       # out of order: uses the file before it is staged
            else:
                lst.append(d)
            if nsb == 'task' and (a == 'Move' or r.random() < 0.4):
                cur = nrel                                                # go on from the new file
            elif a == 'Move':
                break

    def dirseq(self, tasks, files, dirs, cid):
        """stage into a directory, make the directory disappear (a MOVE directive whose source is the directory,
        or the payload removing / renaming it), stage into it again -- all through the same component instances"""
        r = self.r
        self.k += 1
        k = self.k
        side = r.choice(['aso', 'aso', 'asi', 'asi', 'tsi', 'tso'])
        how = r.choice(['move', 'move', 'rm', 'mv']) if side in ('aso', 'asi', 'tsi') else r.choice(['rm', 'mv'])
        same_task = how == 'move' and side in ('aso', 'asi') and r.random() < 0.4
        if not same_task and tasks[-1]['bulk'] == tasks[0]['bulk']:
            tasks.append({'in': [], 'out': [], 'outcome': 'DONE', 'soe': False, 'exec': [],
                          'bulk': tasks[-1]['bulk'] + 1})
        i = 0
        if same_task:
            kk = i
        else:
            kk = r.choice([n for n, t in enumerate(tasks) if t['bulk'] > tasks[i]['bulk']])
        sb = 'client' if side == 'tso' else r.choice(['pilot', 'pilot', 'session', 'resource'])
        dname = r.choice(['collect%d', 'stage%d', 'pool%d/sub']) % k
        if r.random() < 0.5:
            dirs.append([sb, dname])
            for n in range(r.choice([0, 1, 2])):
                files.append([sb, '%s/old%d.dat' % (dname, n), next(cid)])

        def writer(ti, n):
            t = tasks[ti]
            uid = 't%d' % ti
            tgt = self.loc(sb, '%s/w%d_%d.dat' % (dname, k, n), uid, 'none')
            if side in ('aso', 'tso'):
                sname = 'out%d_%d.dat' % (k, n)
                t['exec'].append([sname, next(cid)])
                t['outcome'], t['soe'] = 'DONE', False
                src = self.loc('task', sname, uid, 'task')
                d = {'source': src, 'target': tgt, 'action': 'Copy' if side == 'aso' else 'Transfer'}
                t['out'].append(self.short(src, tgt) if side == 'tso' and r.random() < 0.5 else d)
            elif side == 'asi':
                sname = 'inp%d_%d.dat' % (k, n)
                ssb = r.choice(['pilot', 'session'])
                files.append([ssb, sname, next(cid)])
                t['in'].append({'source': self.loc(ssb, sname, uid, 'none'), 'target': tgt, 'action': 'Copy'})
            else:
                sname = 'inp%d_%d.dat' % (k, n)
                files.append(['client', sname, next(cid)])
                src = self.loc('client', sname, uid, 'client')
                t['in'].append(self.short(src, tgt) if r.random() < 0.5 else {'source': src, 'target': tgt})

        writer(i, 0)
        if r.random() < 0.3:
            writer(i, 1)
        if how == 'move':
            tj = i if (same_task or side == 'tsi' or r.random() < 0.5) else kk
            uid = 't%d' % tj
            mt = r.choice([self.loc('task', 'got%d' % k, uid, 'task'), self.loc('session', 'arch%d/' % k, uid, 'none'),
                           self.loc('task', 'got%d/' % k, uid, 'task')])
            d = {'source': self.loc(sb, dname, uid, 'none'), 'target': mt, 'action': 'Move'}
            lst = tasks[tj]['out'] if side == 'aso' else tasks[tj]['in']
            if side == 'aso':
                tasks[tj]['outcome'], tasks[tj]['soe'] = 'DONE', False
            if tj == kk and not same_task:
                lst.insert(0, d)                     # before the second writer of that task
            else:
                lst.append(d)
        else:
            tj = i if side in ('asi', 'tsi') else kk
            op = ['rm', sb, dname] if how == 'rm' else ['mv', sb, dname, sb, dname.split('/')[0] + '.away']
            tasks[tj].setdefault('ops', []).append(op)
        writer(kk, 2)
        if r.random() < 0.3 and kk + 1 < len(tasks):
            writer(kk + 1, 3)

    def dircopy(self, tasks, files, dirs, cid):
        """a directory as the source of a TRANSFER / COPY / MOVE"""
        r = self.r
        self.k += 1
        k = self.k
        ti = r.randrange(len(tasks))
        t, uid = tasks[ti], 't%d' % ti
        act = r.choice(['Transfer', 'Copy', 'Copy', 'Move'])
        sb = 'client' if act == 'Transfer' else r.choice(['pilot', 'session', 'resource'])
        dname = 'tree%d' % k
        for n in r.sample(['a.dat', 'b.dat', 'sub/c.dat', 'sub/deep/d.dat'], r.randint(1, 3)):
            files.append([sb, '%s/%s' % (dname, n), next(cid)])
        if r.random() < 0.2:
            dirs.append([sb, dname + '/empty'])
        src = self.loc(sb, dname, uid, 'client' if act == 'Transfer' else 'none')
        q = r.random()
        if q < 0.5:
            tgt = self.loc('task', 'copy%d' % k, uid, 'task')               # fresh name: the tree appears under it
        elif q < 0.75:
            tgt = self.loc('task', 'into%d/' % k, uid, 'task')              # a directory: the tree goes into it
        else:
            dirs.append(['pilot', 'have%d' % k])
            tgt = self.loc('pilot', 'have%d' % k, uid, 'none')              # an existing directory
        d = {'source': src, 'target': tgt, 'action': act}
        t['in'].append(self.short(src, tgt) if act == 'Transfer' and r.random() < 0.5 else d)

    def collide(self, tasks, files, cid):
        """two or three TRANSFER/COPY directives -- of one task, of several tasks of one bulk, of several bulks --
        stage different data to the same place; sometimes the place holds a file before the run"""
        r = self.r
        kind = r.choice(['in-agent', 'in-agent', 'in-client', 'in-client', 'out-client', 'out-agent'])
        n = r.choice([2, 2, 3])
        self.k += 1
        name = r.choice(['shared/p%d.dat', 'cfg%d.dat', 'in/q%d.dat']) % self.k
        if kind == 'in-agent':
            sb = r.choice(['pilot', 'pilot', 'session', 'resource', 'task'])
            act, src_sb, default = 'Copy', r.choice(['pilot', 'session', 'resource']), 'task'
        elif kind == 'in-client':
            sb = r.choice(['task', 'task', 'pilot', 'session', 'resource'])
            act, src_sb, default = 'Transfer', 'client', 'client'
        elif kind == 'out-client':
            sb = r.choice(['client', 'client', 'client', 'pilot'])
            act, src_sb, default = 'Transfer', 'task', 'task'
        else:
            sb = r.choice(['pilot', 'pilot', 'session', 'resource'])
            act, src_sb, default = 'Copy', 'task', 'task'
        same_task = sb == 'task' or len(tasks) == 1 or r.random() < 0.35
        who = [r.randrange(len(tasks))] * n if same_task else sorted(r.choice(range(len(tasks))) for _ in range(n))
        if sb != 'task' and r.random() < 0.3:
            files.append([sb, name, next(cid)])                  # the target exists before the run
        for j, ti in enumerate(who):
            t = tasks[ti]
            uid = 't%d' % ti
            if kind.startswith('in'):
                sname = 'src%d_%d.dat' % (self.k, j)
                files.append([src_sb, sname, next(cid)])
                src = self.loc(src_sb, sname, uid, default)
                tdefault = 'task'
            else:
                sname = 'res%d_%d.dat' % (self.k, j)
                t['exec'].append([sname, next(cid)])
                src = self.loc('task', sname, uid, 'task')
                tdefault = 'client' if act == 'Transfer' else 'task'
                if r.random() < 0.8:
                    t['outcome'], t['soe'] = 'DONE', False
            tgt = self.loc(sb, name, uid, tdefault)
            lst = t['in'] if kind.startswith('in') else t['out']
            if act == 'Transfer' and r.random() < 0.5:
                d = self.short(src, tgt)
            else:
                d = {'source': src, 'target': tgt, 'action': act}
            lst.insert(r.randint(0, len(lst)), d) if r.random() < 0.3 else lst.append(d)

    def target(self, sbox_choices, uid, default, link=False):
        r = self.r
        sb = r.choice(sbox_choices)
        name = self.fresh()
        q = r.random()
        if q < 0.2:
            name = r.choice(['sub/', 'deep/er/', 'o/']) + name
        elif q < 0.27 and not link:
            return self.loc(sb, r.choice(['in/', 'dd/']), uid, default)          # names a directory
        elif q < 0.31 and not link:
            return ''
        elif q < 0.36 and not link:
            name = r.choice(['same.dat', 'sub/same.dat'])                        # collisions
        elif q < 0.40 and not link:
            for d in self.dirs:
                if d[0] == sb:
                    return self.loc(sb, d[1], uid, default)                      # an existing directory
        elif q < 0.46 and not link:
            # (never one that some LINK directive links: cp writes through a hard link, not modelled)
            old = [f for f in self.files if f[0] == sb and (f[0], f[1]) not in self.linked]
            if old:
                f = r.choice(old)
                self.overwritten.add((f[0], f[1]))
                return self.loc(sb, f[1], uid, default)                          # an existing file is replaced
        return self.loc(sb, name, uid, default)

    def task(self, uid, files, dirs, cid):
        r = self.r
        self.dirs = dirs
        ins, outs = [], []
        staged = []          # names known to be in the task sandbox later
        for _ in range(r.choice([0, 1, 1, 2, 2, 3, 4])):
            q = r.random()
            if q < 0.5:
                a = 'Transfer'
            else:
                a = r.choice(['Copy', 'Link', 'Move', 'Tarball', 'Tarball'])
            client_side = a in ('Transfer', 'Tarball')
            # source
            pool = [f for f in files if (f[0] == 'client') == client_side or r.random() < 0.04]
            z = r.random()
            if z < 0.05 or not pool:
                src = self.loc('client' if client_side else 'pilot', 'nope%d.dat' % r.randint(1, 3), uid,
                               'client' if client_side else 'task')
            elif z < 0.065:
                src = r.choice(['client://host/a.dat', 'pilot://h/sh.dat', 'task://x/y'])
            elif z < 0.2 and staged and not client_side:
                src = self.loc('task', r.choice(staged), uid, 'task')
            else:
                if a == 'Link':
                    pool = [f for f in pool if (f[0], f[1]) not in self.overwritten] or pool[:1]
                f = r.choice(pool)
                if a == 'Link':
                    if (f[0], f[1]) in self.overwritten:
                        a = 'Copy'
                    else:
                        self.linked.add((f[0], f[1]))
                src = self.loc(f[0], f[1], uid, 'client' if client_side else 'task')
            sboxes = ['task'] * 6 + ['pilot', 'session', 'resource']
            tgt = self.target(sboxes, uid, 'task', link=(a in ('Link', 'Tarball')))
            if a == 'Transfer' and r.random() < 0.6:
                ins.append(self.short(src, tgt))
            else:
                d = {'source': src, 'target': tgt, 'action': a}
                if a == 'Transfer' and r.random() < 0.5:
                    del d['action']
                if r.random() < 0.15 and a != 'Link':
                    del d['target']
                if r.random() < 0.008:
                    d['bogus'] = 1
                if r.random() < 0.008:
                    d['source'] = r.choice([None, ''])
                ins.append(d)
            if tgt and '://' not in tgt and not tgt.startswith('/') and not tgt.endswith('/'):
                staged.append(tgt[2:] if tgt.startswith('./') else tgt)
        ex = []
        for n in r.sample(['o1.dat', 'o2.dat', 'out/o3.dat', 'o4.txt'], r.choice([0, 1, 2, 2, 3])):
            ex.append([n, next(cid)])
        for _ in range(r.choice([0, 1, 1, 2, 3])):
            a = 'Transfer' if r.random() < 0.55 else r.choice(['Copy', 'Link', 'Move'])
            z = r.random()
            if z < 0.06 or not ex:
                src = self.loc('task', 'gone%d.dat' % r.randint(1, 2), uid, 'task')
            elif z < 0.075:
                src = 'task://host/o1.dat'
            elif z < 0.15:
                f = r.choice([f for f in files if f[0] != 'client'] or [['task', ex[0][0]]])
                if a == 'Link':
                    if (f[0], f[1]) in self.overwritten:
                        a = 'Copy'
                    else:
                        self.linked.add((f[0], f[1]))
                src = self.loc(f[0], f[1], uid, 'task')
            else:
                src = self.loc('task', r.choice(ex)[0], uid, 'task')
            if a == 'Transfer':
                tgt = self.target(['client'] * 5 + ['pilot'], uid, 'client')
                if r.random() < 0.6:
                    outs.append(self.short(src, tgt))
                    continue
            else:
                tgt = self.target(['task', 'pilot', 'pilot', 'session', 'resource'], uid, 'task', link=(a == 'Link'))
            d = {'source': src, 'target': tgt, 'action': a}
            if r.random() < 0.12 and a != 'Link':
                del d['target']
            outs.append(d)
        q = r.random()
        outcome = 'DONE' if q < 0.7 else ('FAILED' if q < 0.92 else 'CANCELED')
        return {'in': ins, 'out': outs, 'outcome': outcome, 'soe': outcome != 'DONE' and r.random() < 0.35, 'exec': ex}

    def short(self, src, tgt):
        r = self.r
        q = r.random()
        if q < 0.012:
            return '%s > %s > z.dat' % (src, tgt)
        if tgt == '' and r.random() < 0.7:
            return src
        form = r.choice(['%s > %s', '%s >> %s', '%s>%s', '%s>>%s', '%s  >  %s', '<', '<<', '<n'])
        if form == '<':
            return '%s < %s' % (tgt, src)
        if form == '<<':
            return '%s << %s' % (tgt, src)
        if form == '<n':
            return '%s<%s' % (tgt, src)
        return form % (src, tgt)


class C11(Prop):
    id = 'C11'
    module = 'c11'
    title = 'Staging directives move the named data to the named place'
    props_files = ['Props/C11.v']
    extra_targets = ['Staging/Oracle.vo']
    model_targets = ['Staging/Oracle.vo']
    translators = []
    header = 'From RP Require Import Staging.Model Staging.Oracle.\nOpen Scope string_scope.\nOpen Scope list_scope.'
    clauses = ['input_staged', 'output_staged', 'failed_task_no_output', 'bad_directive_fails_task',
               'only_that_task_fails']
    corr_name = ('Staging.Model(run_case: expand/complete_url/tsi_work/asi_work/aso_work/tso_work) vs the real '
                 'expand_description + tmgr/agent staging_input + agent/tmgr staging_output components on a scratch tree')
    rule = ('corpus, then seed-determined cases of 1-3 tasks in 1-3 consecutive bulks with 0-4 input and 0-3 output directives (all actions; '
            'short forms > >> < <<, dict form with/without target/action, invalid keys, empty sources; relative, '
            'absolute, file://, pwd://, client/resource/session/pilot/task/endpoint:// spellings; directory and empty '
            'targets, missing sources, host parts; in 40% of the cases two or three TRANSFER/COPY directives of one task, of several tasks of a bulk or of several bulks staging different data to the same pilot/session/resource/task/client path, the path sometimes holding a file before the run; all initial files are an hour old so that a target staged earlier in the run is newer than the next source); in 35% of the cases a directory is staged into, disappears (MOVE directive with the directory as source, or the payload removing / renaming it between two tasks) and is staged into again, on the agent-output, agent-input, client-input or client-output side, all bulks handled by the same component and helper instances; in 20% a directory tree is the source of a TRANSFER/COPY/MOVE (fresh name, trailing-slash and existing-directory targets) and outcomes DONE/FAILED/CANCELED with/without '
            'stage_on_error; thorough adds an exhaustive action x source-spelling x target-spelling x outcome sweep; '
            'non-trivial = the run changed the file tree and the case has at least two directives')
    trusted = [
        'correspondence harness harness/c11.py + harness/c11_impl.py: real stager components built without __init__ '
        '(mock log/profiler, recording publisher and output queue, real advance), Local staging backend, coreutils cp, '
        'python tarfile/shutil/os on a scratch tree; compared inside Coq by vm_compute with Staging.Model.run_case',
        'modelled, not verified: ru.Url parsing (modelled for strings [schema://[host]]path without . and .. '
        'components), os.makedirs/cp -r/shutil.move/os.link/tarfile semantics on regular files (Staging.Model fs ops)',
        'not modelled: DOWNLOAD (http), TARBALL of a directory, partial effects of conflicting cp -r merges, the SAGA backend / remote transfers, '
        'flags and priority of directives, the bulk-mkdir tar optimisation of tmgr staging_input (threshold never '
        'reached), stdout/stderr collection, hard-link identity',
    ]
    assumptions = ['location strings have the form [schema://[host]]path over printable ASCII without `.`/`..` '
                   'components; sources are regular files or directory trees; no other process changes the sandboxes during staging']

    def cases(self, rng, tier):
        g = Gen(rng)
        n = 400 if tier == 'quick' else 6000
        for _ in range(n):
            yield g.case()
        if tier == 'thorough':
            yield from self.sweep()

    def sweep(self):
        srcs = {'Transfer': ['a.dat', 'client:///a.dat', '/R/client/a.dat', 'pilot:///sh.dat', 'nope.dat',
                             'client://h/a.dat', 'sub/d.dat'],
                'agent': ['pilot:///sh.dat', 'session:///s.dat', 'resource:///r.dat', '/R/rsb/s1/p0/sh.dat',
                          'nope.dat', 'client:///a.dat', 'pilot://h/sh.dat']}
        tgts = ['x.dat', 'task:///x.dat', 'sub/x.dat', 'pilot:///k/x.dat', 'in/', '', 'session:///x.dat',
                '/R/rsb/s1/p0/t0/x.dat', 'pilot:///shared']
        files = [['client', 'a.dat', 1], ['client', 'sub/d.dat', 2], ['pilot', 'sh.dat', 3], ['session', 's.dat', 4],
                 ['resource', 'r.dat', 5]]
        for a in ['Transfer', 'Copy', 'Link', 'Move', 'Tarball']:
            for s in srcs['Transfer' if a in ('Transfer', 'Tarball') else 'agent']:
                for t in tgts:
                    for outcome, soe in (('DONE', False), ('FAILED', False), ('FAILED', True)):
                        d = {'source': s, 'target': t, 'action': a}
                        o = {'source': 'o1.dat', 'target': t if a != 'Tarball' else 'r.dat',
                             'action': a if a != 'Tarball' else 'Transfer'}
                        yield {'files': files, 'dirs': [['pilot', 'shared']],
                               'tasks': [{'in': [d], 'out': [o], 'outcome': outcome, 'soe': soe, 'exec': [['o1.dat', 9]]}]}

    # ------------------------------------------------------------------ impl
    def impl_setup(self):
        self.rp = rp_import()
        from .c11_impl import Driver
        self.driver = Driver(self.rp)

    def run_impl(self, case):
        return self.driver.run(case)

    # ------------------------------------------------------------------ coq
    def coq_row(self, case, obs):
        return '(c11_row %s %s %s %s)' % (tasks_in(case), tree(obs['tree0']),
                                          L.lst([tobs(o) for o in obs['tasks']]), tree(obs['tree']))

    def model_show(self, case):
        # the initial tree is rebuilt from the case (sandbox dirs + files)
        t0 = self._tree0(case)
        return 'model_obs %s %s' % (tasks_in(case), tree(t0))

    def _tree0(self, case):
        from .c11_impl import SBOX, sbox_rel
        ent = {}
        for s in SBOX.values():
            parts = s.split('/')
            for i in range(1, len(parts) + 1):
                ent['/'.join(parts[:i])] = ['D']
        for sb, rel in case.get('dirs', []):
            parts = (sbox_rel(sb) + '/' + rel).split('/')
            for i in range(1, len(parts) + 1):
                ent['/'.join(parts[:i])] = ['D']
        from .c11_impl import known_contents, canon
        known = known_contents(case)
        for f in case.get('files', []):
            parts = (sbox_rel(f[0]) + '/' + f[1]).split('/')
            for i in range(1, len(parts)):
                ent['/'.join(parts[:i])] = ['D']
            ent['/'.join(parts)] = ['F', canon(known, f[2], f[3] if len(f) > 3 else None)]
        return [[k] + v for k, v in sorted(ent.items())]

    def nontrivial(self, case, obs):
        n = sum(len(t['in']) + len(t['out']) for t in case['tasks'])
        return n >= 2 and obs['tree'] != obs['tree0']

    def signature(self, case, obs, clause):
        # known finding: a TARBALL directive with an explicitly empty target packs the file under the name of the
        # task sandbox itself and the agent cannot unpack it
        if clause == 'only_that_task_fails':
            def empty_tar(t):
                return any(isinstance(d, dict) and d.get('action') == 'Tarball' and 'target' in d
                           and not (d['target'] or '').strip() for d in t['in'])
            failed = [t for t, o in zip(case['tasks'], obs['tasks'])
                      if o['states'] and (o['states'][-1] != t['outcome']
                                          or 'AGENT_SCHEDULING_PENDING' not in o['states'])]
            if failed and all(empty_tar(t) for t in failed):
                return 'only_that_task_fails:agent_staging_input:tarball-with-empty-target'
        return '%s:staging' % clause

    def shrink(self, case):
        ts = case['tasks']
        if len(ts) > 1:
            for i in range(len(ts)):
                yield dict(case, tasks=ts[:i] + ts[i + 1:])
        for i, t in enumerate(ts):
            for key in ('in', 'out', 'exec', 'ops'):
                for j in range(len(t.get(key, []))):
                    t2 = dict(t)
                    t2[key] = t[key][:j] + t[key][j + 1:]
                    yield dict(case, tasks=ts[:i] + [t2] + ts[i + 1:])
        for key in ('files', 'dirs'):
            for j in range(len(case.get(key, []))):
                yield dict(case, **{key: case[key][:j] + case[key][j + 1:]})

    def distribution(self, results):
        acts, forms, outcomes, states = {}, {}, {}, {}
        nd = 0
        for r in results:
            for t in r['case']['tasks']:
                outcomes[t['outcome']] = outcomes.get(t['outcome'], 0) + 1
                for d in t['in'] + t['out']:
                    nd += 1
                    if isinstance(d, str):
                        forms['short'] = forms.get('short', 0) + 1
                        acts['Transfer'] = acts.get('Transfer', 0) + 1
                    else:
                        forms['dict'] = forms.get('dict', 0) + 1
                        a = d.get('action', 'Transfer')
                        acts[a] = acts.get(a, 0) + 1
            if r['obs']:
                for o in r['obs']['tasks']:
                    f = o['states'][-1] if o['states'] else 'not-created'
                    states[f] = states.get(f, 0) + 1
        return dict(directives=nd, actions=acts, forms=forms, outcomes=outcomes, final_states=states)


PROP = C11()
