"""C05 -- implementation driver: the REAL task-pipeline components of
radical.pilot (work_cb / work / advance / publish and the agent_0 proxy
callbacks), built without __init__, wired by their REAL initialize() where that
is possible, with in-memory queues/pubsubs as recorders and fault injection at
the places where the real code calls out (stager, session sandbox lookup,
launcher, subprocess, allocation).

An *emission* is what a component lets the outside see:

    ['pub',  uid, state, target_state|None, exc_recorded, exit_code|None, full]
    ['push', uid, state, target_state|None, exc_recorded, exit_code|None, queue]

`queue` is the name of the destination component derived from the (queue
name, qname) the real code pushed to.  Snapshots are taken at put() time, like
serialisation on the real ZMQ channels would.
"""
import os
import shutil
import queue as pyqueue
import threading
from unittest import mock

PID = 'pilot.0000'
SID = 'sess.0'
COMPS = ['tsched', 'tin', 'a0in', 'ain', 'asched', 'aexec', 'aout', 'a0out', 'tout']


def tuid(n):
    return 'task.%06d' % n


def unum(uid):
    try:
        return int(str(uid).split('.')[-1])
    except ValueError:
        return -1


class Fault(Exception):
    pass


class Getter:
    """input queue endpoint: hands out what the harness put in"""

    def __init__(self):
        self.next = []

    def get_nowait(self, qname=None, timeout=None):
        out, self.next = self.next, []
        return out

    def stop(self):
        pass


class Putter:
    channel = 'c05'

    def __init__(self, drv, name):
        self.drv, self.name = drv, name

    def put(self, things, qname=None):
        if not isinstance(things, list):
            things = [things]
        for t in things:
            self.drv.emit_push(t, self.name, qname)


class Publisher:
    def __init__(self, drv, name):
        self.drv, self.name = drv, name

    def put(self, topic, msg):
        self.drv.emit_pub(self.name, msg)


class FakeProc:
    _n = 1000

    def __init__(self, rc):
        FakeProc._n += 1
        self.pid = FakeProc._n
        self.rc = rc

    def poll(self):
        return self.rc

    def wait(self, *a, **k):
        if self.rc is None:
            self.rc = -15
        return self.rc


class Driver:

    def __init__(self, rp):
        import radical.utils as ru
        import radical.pilot.states as rps
        import radical.pilot.constants as rpc
        self.rp, self.ru, self.rps, self.rpc = rp, ru, rps, rpc
        self.route = {
            (rpc.TMGR_SCHEDULING_QUEUE, None): 'tsched',
            (rpc.TMGR_STAGING_INPUT_QUEUE, None): 'tin',
            (rpc.PROXY_TASK_QUEUE, PID): 'a0in',
            (rpc.AGENT_STAGING_INPUT_QUEUE, None): 'ain',
            (rpc.AGENT_SCHEDULING_QUEUE, None): 'asched',
            (rpc.AGENT_EXECUTING_QUEUE, None): 'aexec',
            (rpc.AGENT_STAGING_OUTPUT_QUEUE, None): 'aout',
            (rpc.AGENT_COLLECTING_QUEUE, None): 'a0out',
            (rpc.PROXY_TASK_QUEUE, SID): 'tout',
        }
        self.in_state = dict(
            tsched=rps.TMGR_SCHEDULING_PENDING, tin=rps.TMGR_STAGING_INPUT_PENDING,
            a0in=rps.AGENT_STAGING_INPUT_PENDING, ain=rps.AGENT_STAGING_INPUT_PENDING,
            asched=rps.AGENT_SCHEDULING_PENDING, aexec=rps.AGENT_EXECUTING_PENDING,
            aout=rps.AGENT_STAGING_OUTPUT_PENDING, a0out=rps.TMGR_STAGING_OUTPUT_PENDING,
            tout=rps.TMGR_STAGING_OUTPUT_PENDING)
        self.sbox = os.path.join(os.getcwd(), 'c05sbox')
        os.makedirs(self.sbox, exist_ok=True)
        self.em = []
        self.spec = {}
        self.pushed = {}

    # ------------------------------------------------------------------ recorders
    def view(self, t):
        ex = t.get('exception')
        return [unum(t['uid']), t.get('state'), t.get('target_state'), bool(ex), t.get('exit_code')]

    def emit_pub(self, chan, msg):
        rpc = self.rpc
        if chan != rpc.STATE_PUBSUB:
            if chan == rpc.AGENT_UNSCHEDULE_PUBSUB:
                ts = msg if isinstance(msg, list) else [msg]
                for t in ts:
                    self.em.append(['unsched', unum(t['uid'])])
            elif isinstance(msg, dict) and msg.get('cmd') == 'raptor_state_update':
                pass
            return
        if msg.get('cmd') == 'raptor_state_update':
            return
        assert msg.get('cmd') == 'update', msg
        arg = msg['arg'] if isinstance(msg['arg'], list) else [msg['arg']]
        for t in arg:
            full = len(t) > 3
            self.em.append(['pub'] + self.view(t) + [full])

    def emit_push(self, t, qn, qname):
        dst = self.route.get((qn, qname), 'other')
        self.em.append(['push'] + self.view(t) + [dst])
        # a pushed task is serialised: keep a private copy for the next component
        import copy
        c = {k: v for k, v in t.items() if k != 'proc'}
        self.pushed.setdefault(dst, []).append(copy.deepcopy(c))

    # ------------------------------------------------------------------ task dicts
    def mk_task(self, comp, s):
        """the task dict as it arrives at `comp` for the case-level task spec s"""
        rpc = self.rpc
        uid = tuid(s['uid'])
        mark = 'FAULT' if False else 'ok'
        ins, outs = [], []

        def sd(action, fault, k):
            return {'uid': 'sd.%d' % k, 'action': action, 'flags': 0, 'priority': 0,
                    'source': 'task:///%s_src_%d' % ('FAULT' if fault else mark, k),
                    'target': 'task:///%s_tgt_%d' % ('FAULT' if fault else mark, k)}
        fa = s['fa']
        if s['tin']:
            ins.append(sd(rpc.TRANSFER, False, 0))
            ins.append(sd(rpc.TRANSFER, fa['tin'], 1))
        if s['ain']:
            ins.append(sd(rpc.COPY, False, 2))
            ins.append(sd(rpc.LINK, fa['ain'], 3))
        if s['aout']:
            outs.append(sd(rpc.COPY, fa['aout'], 4))
            outs.append(sd(rpc.MOVE, False, 5))
        if s['tout']:
            outs.append(sd(rpc.TRANSFER, False, 6))
            outs.append(sd(rpc.TRANSFER, fa['tout'], 7))
        td = {'uid': uid, 'executable': '/bin/true', 'arguments': [], 'ranks': 1, 'cores_per_rank': 1,
              'gpus_per_rank': 0, 'input_staging': ins, 'output_staging': outs,
              'stage_on_error': bool(s['soe']), 'mode': 'task.executable', 'priority': 0,
              'named_env': None, 'raptor_id': None, 'timeout': 0, 'startup_timeout': 0,
              'stdout': None, 'stderr': None, 'environment': {}, 'sandbox': None, 'slots': None}
        t = {'uid': uid, 'type': 'task', 'origin': 'client', 'description': td,
             'state': self.in_state.get(comp, comp), 'name': uid, 'resources': {'cpu': 1, 'gpu': 0},
             'stdout': '', 'stderr': ''}
        if s['bind'] == 'known':
            t['pilot'] = PID
        elif s['bind'] == 'unknown':
            t['pilot'] = 'pilot.0099'
        else:
            t['pilot'] = None
        if comp not in ('tsched',):
            t['pilot'] = PID
            t.update(self.sandboxes(uid))
        if s.get('tgt') is not None:
            t['target_state'] = s['tgt']
        if s.get('exc'):
            t['exception'] = 'RuntimeError("earlier")'
            t['exception_detail'] = 'x'
        if s.get('exit') is not None or comp in ('aout', 'a0out', 'tout'):
            t['exit_code'] = s.get('exit')
        return t

    def sandboxes(self, uid):
        r = 'file://localhost' + self.sbox
        return {'client_sandbox': self.sbox + '/client', 'endpoint_fs': 'file://localhost/',
                'resource_sandbox': r + '/rsb', 'session_sandbox': r + '/rsb/s1',
                'pilot_sandbox': r + '/rsb/s1/p0', 'task_sandbox': r + '/rsb/s1/p0/%s/' % uid,
                'task_sandbox_path': self.sbox + '/rsb/s1/p0/%s/' % uid}

    # ------------------------------------------------------------------ components
    def base(self, cls, uid, agent):
        ru, rpc = self.ru, self.rpc
        with mock.patch.object(cls, '__init__', return_value=None):
            c = cls()
        c._uid = uid
        c._log = mock.MagicMock()
        c._prof = mock.MagicMock()
        c._cancel_list = []
        c._cancel_lock = threading.RLock()
        c._inputs, c._outputs, c._workers, c._publishers = {}, {}, {}, {}
        c._term = threading.Event()
        c._cfg = ru.Config(from_dict={'owner': 'tmgr.0000', 'uid': uid, 'sid': SID, 'pid': PID,
                                      'task_bulk_mkdir_threshold': 1 << 20})
        c._reg = {'cfg.session_sandbox': 'file://localhost' + self.sbox + '/rsb/s1'}
        sess = mock.MagicMock()
        sess.uid = SID
        sess.rcfg = ru.Config(from_dict={'new_session_per_task': False})
        sess.cfg = ru.Config(from_dict={'pid': PID})
        c._session = sess
        c._publishers[rpc.STATE_PUBSUB] = Publisher(self, rpc.STATE_PUBSUB)
        c._publishers[rpc.CONTROL_PUBSUB] = Publisher(self, rpc.CONTROL_PUBSUB)
        c._publishers[rpc.AGENT_UNSCHEDULE_PUBSUB] = Publisher(self, rpc.AGENT_UNSCHEDULE_PUBSUB)
        c._getter = Getter()
        drv = self

        # the wiring asked for by the real initialize() is recorded and enacted
        def register_input(states, queue, cb=None, qname=None, path=None):
            states = ru.as_list(states)
            name = '%s.%s' % (uid, '_'.join(str(s) for s in states))
            c._inputs[name] = {'queue': c._getter, 'qname': qname, 'states': states}
            c._wired_in = (queue, qname)
            for s in states:
                c._workers[s] = cb

        def register_output(states, qname):
            for s in ru.as_list(states):
                c._outputs[s] = Putter(drv, qname) if qname else None
        c.register_input = register_input
        c.register_output = register_output
        c.register_subscriber = lambda *a, **k: None
        c.register_publisher = lambda *a, **k: None
        c.register_timed_cb = lambda *a, **k: None
        c.register_rpc_handler = lambda *a, **k: None
        return c

    def stager(self, bf):
        if getattr(self, 'real', None) is not None:
            return self.real_stager()
        st = mock.MagicMock()

        def hsd(sd):
            if 'FAULT' in str(sd['source']) or 'FAULT' in str(sd['target']):
                raise Fault('staging failed')
        st.handle_staging_directive = hsd

        def copy(src, tgt, *a, **k):
            if bf:
                raise Fault('bulk copy failed')
        st.copy = copy
        st.sh_callout = lambda *a, **k: ('', '', 0)
        st.mkdir = lambda *a, **k: None
        return st

    def build(self, comp, case):
        ru, rps, rpc = self.ru, self.rps, self.rpc
        bf = bool(case.get('bf'))
        hp = bool(case.get('hp', True))
        if comp == 'tsched':
            from radical.pilot.tmgr.scheduler.round_robin import RoundRobin
            from radical.pilot.tmgr.scheduler.base import ADDED
            c = self.base(RoundRobin, 'tmgr.0000.scheduling.0000', False)
            c.initialize()
            pilot = {'uid': PID, 'description': {'resource': 'local.localhost', 'access_schema': 'local'}}
            if hp:
                c._pilots[PID] = {'role': ADDED, 'state': rps.PMGR_ACTIVE, 'pilot': pilot, 'info': {}}
                c._pids.append(PID)
            sess = c._session
            sess._get_client_sandbox = lambda: self.sbox + '/client'
            sess._get_endpoint_fs = lambda p: 'file://localhost/'
            for k in ('resource', 'session', 'pilot'):
                setattr(sess, '_get_%s_sandbox' % k, lambda p, k=k: self.sandboxes('x')['%s_sandbox' % k])

            def task_sandbox(task, p):
                if self.spec[unum(task['uid'])]['fa']['assign']:
                    raise Fault('no sandbox for %s' % task['uid'])
                return self.sandboxes(task['uid'])['task_sandbox']
            sess._get_task_sandbox = task_sandbox
            if bf:
                def _work(tasks):
                    raise Fault('scheduler _work failed')
                c._work = _work
        elif comp == 'tin':
            from radical.pilot.tmgr.staging_input.default import Default as TSI
            c = self.base(TSI, 'tmgr.0000.staging.input.0000', False)
            c._cfg['task_bulk_mkdir_threshold'] = int(case.get('thr', 1 << 20))
            import radical.pilot.utils as rpu
            with mock.patch.object(rpu, 'StagingHelper', lambda log: self.stager(bf)):
                c.initialize()
            if hp:
                c._pilots[PID] = {'uid': PID, 'js_hop': 'fork://localhost/'}
            c._session._get_session_sandbox = lambda p: ru.Url('file://localhost' + self.sbox + '/rsb/s1')
            c._session.uid = SID
        elif comp in ('a0in', 'a0out'):
            from radical.pilot.agent.agent_0 import Agent_0
            c = self.base(Agent_0, 'agent_0', True)
            c._pid, c._sid = PID, SID
            c._service_lock = threading.Lock()
            # Agent_0.initialize() also prepares environments and talks RPC: the
            # wiring is repeated here verbatim from its register_* calls
            c.register_output(rps.AGENT_STAGING_INPUT_PENDING, rpc.AGENT_STAGING_INPUT_QUEUE)
            c.register_output(rps.TMGR_STAGING_OUTPUT_PENDING, rpc.PROXY_TASK_QUEUE)
            if comp == 'a0in':
                c.register_input(rps.AGENT_STAGING_INPUT_PENDING, rpc.PROXY_TASK_QUEUE,
                                 qname=c._pid, cb=c._proxy_input_cb)
            else:
                c.register_input(rps.TMGR_STAGING_OUTPUT_PENDING, rpc.AGENT_COLLECTING_QUEUE,
                                 cb=c._proxy_output_cb)
        elif comp == 'ain':
            from radical.pilot.agent.staging_input.default import Default as ASI
            c = self.base(ASI, 'agent_0.staging.input.0000', True)
            import radical.pilot.utils as rpu
            with mock.patch.object(rpu, 'StagingHelper', lambda log=None: self.stager(bf)):
                c.initialize()
        elif comp == 'aout':
            from radical.pilot.agent.staging_output.default import Default as ASO
            c = self.base(ASO, 'agent_0.staging.output.0000', True)
            import radical.pilot.utils as rpu
            with mock.patch.object(rpu, 'StagingHelper', lambda log=None: self.stager(bf)):
                c.initialize()
            real_stdio = c._handle_task_stdio

            def stdio(task):
                if self.spec[unum(task['uid'])]['fa']['stdio']:
                    raise Fault('stdio failed')
                return real_stdio(task)
            c._handle_task_stdio = stdio
        elif comp == 'tout':
            from radical.pilot.tmgr.staging_output.default import Default as TSO
            c = self.base(TSO, 'tmgr.0000.staging.output.0000', False)
            import radical.pilot.utils as rpu
            with mock.patch.object(rpu, 'StagingHelper', lambda log=None: self.stager(bf)):
                c.initialize()
        elif comp == 'asched':
            from radical.pilot.agent.scheduler.base import AgentSchedulingComponent as ASC
            from collections import defaultdict
            c = self.base(ASC, 'agent_0.scheduling.0000', True)
            c._waitpool = defaultdict(dict)
            c._named_envs = []
            c._raptor_lock = threading.Lock()
            c._raptor_queues, c._raptor_tasks = {}, {}
            c._ts_valid = False
            c._active_cnt = 0
            c._queue_sched = pyqueue.Queue()
            c.register_input(rps.AGENT_SCHEDULING_PENDING, rpc.AGENT_SCHEDULING_QUEUE, c.work)
            c.register_output(rps.AGENT_EXECUTING_PENDING, rpc.AGENT_EXECUTING_QUEUE)

            def try_alloc(task):
                k = self.spec[unum(task['uid'])]['fa']['sched']
                if k == 'fail':
                    raise Fault('cannot place')
                if k == 'cancel':
                    # the cancel request arrives while the task waits for resources
                    with c._cancel_lock:
                        c._cancel_list.append(task['uid'])
                    return False
                return True
            c._try_allocation = try_alloc
        elif comp == 'aexec':
            from radical.pilot.agent.executing.popen import Popen
            c = self.base(Popen, 'agent_0.executing.0000', True)
            c._tasks = {}
            c._check_lock = threading.Lock()
            c._watch_queue = pyqueue.Queue()
            c._to_tasks, c._to_lock = [], threading.Lock()
            c.register_input(rps.AGENT_EXECUTING_PENDING, rpc.AGENT_EXECUTING_QUEUE, c.work)
            c.register_output(rps.AGENT_STAGING_OUTPUT_PENDING, rpc.AGENT_STAGING_OUTPUT_QUEUE)
            launcher = mock.MagicMock()
            c._rm = mock.MagicMock()

            def find_launcher(task):
                if self.spec[unum(task['uid'])]['fa']['exec'][0] == 'nolauncher':
                    return None, None
                return launcher, 'FAKE'
            c._rm.find_launcher = find_launcher
            c._rm.get_launcher = lambda n: launcher
            c._create_exec_script = lambda l, t: ('exec.sh', None)
            c._create_launch_script = lambda l, t, e: (None, 'launch.sh')
        else:
            raise ValueError(comp)
        c._comp = comp
        return c

    # ------------------------------------------------------------------ one delivery
    def deliver(self, c, things):
        """hand `things` to the component like its input queue would and run the
        REAL work_cb once.  Returns 'ok' | 'stopped' | 'raised:<type>'."""
        comp = c._comp
        c._getter.next = list(things)
        import radical.pilot.agent.executing.popen as popen_mod
        import radical.pilot.utils.component as compmod
        ret = 'ok'

        def fake_popen(*a, **k):
            args = k.get('args')
            # which task?  the launch output handle carries the uid in its name
            name = os.path.basename(getattr(k.get('stdout'), 'name', ''))
            uid = name.split('.launch.out')[0]
            x = self.spec[unum(uid)]['fa']['exec']
            if x[0] == 'launcherr':
                raise OSError('exec format error')
            return FakeProc(x[1] if x[0] == 'exit' else None)
        try:
            import subprocess
            # (sp is the subprocess module itself: only the executor gets the fake)
            with mock.patch.object(popen_mod.sp, 'Popen', fake_popen if comp == 'aexec' else subprocess.Popen), \
                 mock.patch.object(compmod.time, 'sleep', lambda *_: None):
                r = c.work_cb()
                if not r:
                    ret = 'stopped'
                if comp == 'asched':
                    c._set_tuple_size = lambda task: task.__setitem__('tuple_size', (1, 1, 0.))
                    c._schedule_incoming()
                if comp == 'aexec':
                    watch = []
                    while True:
                        try:
                            watch.append(c._watch_queue.get_nowait())
                        except pyqueue.Empty:
                            break
                    c._check_running(watch)
                    for t in watch:
                        k = self.spec[unum(t['uid'])]['fa']['exec'][0]
                        if k == 'cancel':
                            # what control_cb does on a cancel_tasks request
                            tt = c.get_task(t['uid'])
                            if tt:
                                c.cancel_task(tt)
                        elif k == 'timeout':
                            # what _to_watcher does once the time is up
                            c.cancel_task(task=t)
        except BaseException as e:      # noqa
            ret = 'raised:%s' % type(e).__name__
        return ret

    # ------------------------------------------------------------------ cases
    def run_comp(self, case):
        comp = case['comp']
        self.em, self.pushed = [], {}
        self.spec = {s['uid']: s for s in case['tasks']}
        for s in case['tasks']:
            os.makedirs(self.sandboxes(tuid(s['uid']))['task_sandbox_path'], exist_ok=True)
        c = self.build(comp, case)
        c._cancel_list = [tuid(u) for u in case.get('cancel', [])]
        things = [self.mk_task(comp, s) for s in case['tasks']]
        ret = self.deliver(c, things)
        held = []
        if comp == 'tsched':
            held = sorted([unum(t['uid']) for ts in c._early.values() for t in ts] +
                          [unum(t['uid']) for t in c._wait_pool])
        return {'ret': ret, 'em': self.em, 'held': held,
                'cancel_left': [unum(u) for u in c._cancel_list],
                'wired': list(getattr(c, '_wired_in', (None, None)))}

    def run_generic(self, case):
        """BaseComponent.work_cb around a synthetic worker that advances the
        first k things and then raises (or not)."""
        from radical.pilot.utils.component import AgentComponent, ClientComponent
        rps, rpc = self.rps, self.rpc
        self.em, self.pushed = [], {}
        self.spec = {s['uid']: s for s in case['tasks']}
        cls = AgentComponent if case['agent'] else ClientComponent
        c = self.base(cls, 'generic.0000', case['agent'])
        c._comp = 'generic'
        k, bf = case['k'], case['bf']

        def work(things):
            c.advance(things, rps.AGENT_STAGING_INPUT, publish=True, push=False)
            for i, t in enumerate(things):
                if i < k:
                    c.advance(t, rps.AGENT_SCHEDULING_PENDING, publish=True, push=True)
            if bf:
                raise Fault('work failed')
        c.register_input(rps.AGENT_STAGING_INPUT_PENDING, rpc.AGENT_STAGING_INPUT_QUEUE, work)
        c.register_output(rps.AGENT_SCHEDULING_PENDING, rpc.AGENT_SCHEDULING_QUEUE)
        c._cancel_list = [tuid(u) for u in case.get('cancel', [])]
        things = [self.mk_task('ain', s) for s in case['tasks']]
        ret = self.deliver(c, things)
        return {'ret': ret, 'em': self.em, 'held': [], 'cancel_left': [unum(u) for u in c._cancel_list],
                'wired': []}

    def run_raptor(self, case):
        """raptor Master._result_cb: exit code -> target_state, then hand-on"""
        from radical.pilot.raptor.master import Master
        rps, rpc = self.rps, self.rpc
        self.em, self.pushed = [], {}
        c = self.base(Master, 'raptor.0000', True)
        c._task_service_data = {}
        c.register_output(rps.AGENT_STAGING_OUTPUT_PENDING, rpc.AGENT_STAGING_OUTPUT_QUEUE)
        things = []
        for s in case['tasks']:
            t = self.mk_task('aexec', s)
            t['state'] = rps.AGENT_EXECUTING
            t['description']['raptor_id'] = 'raptor.0000'
            if 'exit' in s:
                t['exit_code'] = s['exit']
            things.append(t)
        ret = 'ok'
        try:
            c._result_cb(things)
        except BaseException as e:      # noqa
            ret = 'raised:%s' % type(e).__name__
        return {'ret': ret, 'em': self.em, 'held': [], 'cancel_left': [], 'wired': []}

    def run_pipe(self, case):
        """the whole pipeline: nine real components chained by the harness
        through the queues they really push to; `events` is the delivery
        schedule: ['d', comp, n, bf] delivers the first n queued tasks to comp,
        ['c', comp, uid] delivers a cancel request for uid to comp."""
        self.em, self.pushed = [], {}
        self.spec = {s['uid']: s for s in case['tasks']}
        for s in case['tasks']:
            os.makedirs(self.sandboxes(tuid(s['uid']))['task_sandbox_path'], exist_ok=True)
        comps = {}
        queues = {k: [] for k in COMPS}
        queues['tsched'] = [self.mk_task('tsched', s) for s in case['tasks']]
        cancels = {k: [] for k in COMPS}
        steps = []
        for ev in case['events']:
            if ev[0] == 'c':
                cancels[ev[1]].append(tuid(ev[2]))
                continue
            _, comp, n, bf = ev
            things, queues[comp] = queues[comp][:n], queues[comp][n:]
            c = self.build(comp, dict(case, bf=bf, comp=comp, hp=True, thr=case.get('thr', 1 << 20)))
            c._cancel_list = cancels[comp]
            mark = len(self.em)
            self.pushed = {}
            ret = self.deliver(c, things)
            cancels[comp] = list(c._cancel_list)
            for dst, ts in self.pushed.items():
                if dst in queues:
                    queues[dst].extend(ts)
            steps.append({'ret': ret, 'em': self.em[mark:]})
        return {'steps': steps, 'left': {k: [unum(t['uid']) for t in v] for k, v in queues.items() if v}}

    # ------------------------------------------------------------------ real staging
    def real_stager(self):
        """the REAL StagingHelper (local backend); every directive it enacts is
        watched: did it raise, and is the target afterwards a real copy / link
        of the source (or the moved source)"""
        from radical.pilot.utils.staging_helper import StagingHelper
        st = StagingHelper(mock.MagicMock())
        assert type(st._backend).__name__ == 'StagingHelper_Local', type(st._backend)
        real = st.handle_staging_directive
        ru, rpc = self.ru, self.rpc

        def hsd(sd):
            src = os.path.normpath(ru.Url(str(sd['source'])).path)
            tgt = os.path.normpath(ru.Url(str(sd['target'])).path)
            rec = self.real.get(tgt)
            into = os.path.isdir(tgt)
            was_file = os.path.isfile(src)
            data = open(src, 'rb').read() if was_file else None
            try:
                real(sd)
            except BaseException:
                if rec is not None:
                    rec['steps'].append(False)
                raise
            if rec is None:
                return
            rt = os.path.join(tgt, os.path.basename(src)) if into else tgt
            act = sd['action']
            if act in (rpc.COPY, rpc.TRANSFER):
                ok = os.path.exists(rt) and not os.path.islink(rt) and os.path.exists(src) and (
                    (was_file and os.path.isfile(rt) and open(rt, 'rb').read() == data) or
                    (os.path.isdir(src) and os.path.isdir(rt)))
            elif act == rpc.LINK:
                ok = os.path.exists(tgt) and os.path.exists(src) and os.path.samefile(src, tgt)
            elif act == rpc.MOVE:
                ok = os.path.exists(rt) and not os.path.islink(rt) and not os.path.lexists(src) and (
                    not was_file or (os.path.isfile(rt) and open(rt, 'rb').read() == data))
            else:
                ok = True
            rec['steps'].append(True)
            rec['post'].append(bool(ok))
        st.handle_staging_directive = hsd
        return st

    def run_real(self, case):
        """one bulk through ONE real stager with the real StagingHelper on a
        scratch tree.  Per task: a tree {path id: 'A'|'F'|'D'} and directives
        [action, source id, target id, flags]; path ids >= 50 live under a
        parent directory that does not exist yet."""
        rpc = self.rpc
        stage = case['stage']
        self.em, self.pushed = [], {}
        self.real = {}
        self.realn = getattr(self, 'realn', 0) + 1
        ACT = dict(copy=rpc.COPY, link=rpc.LINK, move=rpc.MOVE, transfer=rpc.TRANSFER, tarball=rpc.TARBALL)
        blank = dict(assign=False, tin=False, ain=False, stdio=False, aout=False, tout=False,
                     sched='start', exec=['exit', 0])
        self.spec, things, info = {}, [], {}
        try:
            for t in case['tasks']:
                uid = t['uid']
                root = os.path.join(self.sbox, 'real', '%d' % self.realn, 't%d' % uid)
                os.makedirs(root)

                def path(p, root=root):
                    if p >= 50:
                        return os.path.join(root, 'deep%d' % p, 'x', 'p%d' % p)
                    return os.path.join(root, 'p%d' % p)
                for p, k in t['tree']:
                    if k == 'F':
                        os.makedirs(os.path.dirname(path(p)), exist_ok=True)
                        open(path(p), 'w').write('content of %d/%d\n' % (uid, p))
                    elif k == 'D':
                        os.makedirs(path(p))
                        open(os.path.join(path(p), 'inner'), 'w').write('inner %d\n' % p)
                sds, recs = [], []
                for i, (a, sp, tp, fl) in enumerate(t['sds']):
                    sds.append({'uid': 'sd.%d' % i, 'action': ACT[a], 'flags': fl, 'priority': 0,
                                'source': 'file://localhost' + path(sp), 'target': 'file://localhost' + path(tp)})
                    rec = {'steps': [], 'post': []}
                    self.real[os.path.normpath(path(tp))] = rec
                    recs.append(rec)
                ran = stage in ('aout', 'tout')
                spec = dict(uid=uid, bind='known', tin=False, ain=False, aout=False, tout=False, soe=False,
                            fa=blank, tgt='DONE' if ran else None, exc=False, exit=0 if ran else None)
                self.spec[uid] = spec
                os.makedirs(self.sandboxes(tuid(uid))['task_sandbox_path'], exist_ok=True)
                task = self.mk_task(stage, spec)
                key = 'input_staging' if stage in ('tin', 'ain') else 'output_staging'
                task['description'][key] = sds
                things.append(task)
                paths = sorted({p for p, _ in t['tree']} | {x for d in t['sds'] for x in d[1:3]})
                info[uid] = (path, paths, recs)
            c = self.build(stage, dict(case, comp=stage, bf=False, hp=False, thr=1 << 20))
            ret = self.deliver(c, things)
        finally:
            self.real = None
        per = []
        for t in case['tasks']:
            path, paths, recs = info[t['uid']]
            tree = []
            for p in paths:
                f = path(p)
                if os.path.islink(f) or (os.path.lexists(f) and not os.path.exists(f)):
                    tree.append([p, 'X', []])
                elif os.path.isdir(f):
                    ch = sorted(int(n[1:]) for n in os.listdir(f) if n[:1] == 'p' and n[1:].isdigit())
                    tree.append([p, 'D', ch])
                elif os.path.isfile(f):
                    tree.append([p, 'F', []])
                else:
                    tree.append([p, 'A', []])
            per.append({'uid': t['uid'], 'tree': tree,
                        'enacted': sum(len(r['steps']) for r in recs),
                        'post_ok': all(all(r['post']) for r in recs)})
        shutil.rmtree(os.path.join(self.sbox, 'real', '%d' % self.realn), ignore_errors=True)
        return {'ret': ret, 'em': self.em, 'per': per}

    def run(self, case):
        k = case['kind']
        if k == 'real':
            return self.run_real(case)
        if k == 'comp':
            return self.run_comp(case)
        if k == 'generic':
            return self.run_generic(case)
        if k == 'raptor':
            return self.run_raptor(case)
        if k == 'pipe':
            return self.run_pipe(case)
        raise ValueError(k)
