"""C14 -- pilot states move forward and end for the right reason.

Part a: real PilotManager._update_pilot + Pilot._update (objects built without
__init__, recording pilot-level and manager-level callbacks).
Part b: real Agent_0._check_lifetime / _ctrl_cancel_pilots / stop / finalize
(clock patched, base-class stop patched, killme.signal read back from cwd)."""
import os
import threading
from unittest import mock

from . import coqlit as L
from .core import Prop, rp_import, COQ, REPO

PSTATES = None


def _pstates():
    global PSTATES
    if PSTATES is None:
        import re
        txt = open(os.path.join(COQ, 'Gen', 'StatesTables.v')).read()
        m = re.search(r'Inductive pstate := ([^.]*)\.', txt)
        PSTATES = [s.strip()[2:] for s in m.group(1).split('|')]
    return PSTATES


def P(s):
    return 'P_' + s


def tab(pairs):
    return L.lst([L.pair(L.Z(u), P(s)) for u, s in pairs])


def errname(e):
    return e if e in ('ValueError', 'RuntimeError') else 'OtherError'


def ev(e):
    if e[0] == 'lifetime':
        return '(Lifetime %s %s)' % (L.boolean(e[1]), L.boolean(e[2]))
    if e[0] == 'cancel':
        return '(CancelPilots %s)' % L.boolean(e[1])
    if e[0] == 'service':
        return '(ServiceInfo %s %s)' % (L.boolean(e[1]), L.boolean(e[2]))
    if e[0] == 'heartbeat':
        return '(Heartbeat %s)' % L.boolean(e[1])
    if e[0] == 'other':
        return 'OtherCmd'
    return 'Terminate'


class C14(Prop):
    id = 'C14'
    module = 'c14'
    props_files = ['Props/C14.v']
    extra_targets = ['States/Oracle.vo', 'PilotLaunch/Oracle.vo']
    model_targets = ['States/Oracle.vo', 'AgentCause/Model.vo', 'PilotLaunch/Oracle.vo']
    launch_header = 'From RP Require Import PilotLaunch.Model PilotLaunch.Oracle.'

    def header_for(self, case):
        return self.launch_header if isinstance(case, dict) and case.get('kind') == 'launch' else self.header
    translators = ['states']
    header = ('From RP Require Import Gen.StatesTables States.Model States.Inst States.Oracle AgentCause.Model.')
    clauses = ['progression', 'final_state_consistent', 'unknown_ignored__or__cause_to_state',
               'no_unexpected_exception']
    corr_name = ('States.Model(p_run/p_progress) vs PilotManager._update_pilot/_pilot_state_progress/Pilot._update; '
                 'AgentCause.Model vs Agent_0._check_lifetime/_ctrl_cancel_pilots/stop/finalize; '
                 'PilotLaunch.Model(work) vs PMGRLaunchingComponent.work')
    rule = ('every (current,target) pair of _pilot_state_progress (exhaustive); random notification sequences over '
            '1-3 pilots incl. unknown pids, duplicates, late non-final updates after final; all agent event '
            'sequences of length <= 3 (quick) / 4 (thorough) over {lifetime(no runtime/not exceeded/exceeded), cancel(mine/other), terminate} '
            'incl. service_info (startup failure or success, known/unknown service), heartbeat and unknown commands, all delivered through the real Agent_0.control_cb (exhaustive); non-trivial = pair with distinct states, sequence with >= 3 notifications incl. a final one, '
            'event sequence containing a terminating event; bulks of 1-6 pilots over 1-3 resources x 1-2 access schemas '
            'through the real PMGRLaunchingComponent.work with any subset of buckets whose launch raises and any '
            'pilots canceled beforehand (all bulks of <= 3 pilots over 2 buckets x every failing subset: exhaustive)')
    trusted = [
        'translator translators/states.py (ast -> Gen/StatesTables.v; fail closed)',
        'correspondence harness harness/c14.py (mock set-up of PilotManager/Pilot/Agent_0 without __init__; '
        'time.time patched; AgentComponent.stop patched; killme.signal read back)',
        'bootstrap_0.sh passes killme.signal through unchanged (checked textually on every run, not modelled)',
        'modelled, not verified: zmq delivery, exit_on_error handling, staging of agent output, session teardown',
    ]
    assumptions = ['handlers of the agent run atomically with respect to _final_cause (they do: all run in callbacks '
                   'of one component)']

    def cases(self, rng, tier):
        S = _pstates()
        for a in S:
            for b in S:
                yield {'kind': 'progress', 'cur': a, 'tgt': b}
        n = 250 if tier == 'quick' else 5000
        finals = ['DONE', 'FAILED', 'CANCELED']
        for _ in range(n):
            npil = rng.randint(1, 3)
            pilots = [[u, rng.choice(S) if rng.random() < 0.3 else 'NEW'] for u in range(1, npil + 1)]
            ns = []
            for _k in range(rng.randint(1, 9)):
                u = rng.randint(1, npil) if rng.random() < 0.9 else 7
                st = rng.choice(finals) if rng.random() < 0.3 else rng.choice(S)
                ns.append([u, st])
                if rng.random() < 0.15:
                    ns.append([u, st])
            yield {'kind': 'run', 'pilots': pilots, 'notes': ns}
        # two notifications for one pilot handled by two threads (state subscriber and control channel both end
        # in _update_pilot): thread A is held after its k-th line inside the update code, B runs, A continues
        starts = ['PMGR_LAUNCHING_PENDING', 'PMGR_LAUNCHING', 'PMGR_ACTIVE_PENDING', 'PMGR_ACTIVE']
        combos = [(s0, a, b) for s0 in starts for a in ('PMGR_ACTIVE', 'DONE', 'PMGR_ACTIVE_PENDING')
                  for b in ('CANCELED', 'FAILED', 'DONE', 'PMGR_ACTIVE')]
        races = [(c, k) for c in combos for k in range(1, 46)]
        if tier == 'quick':
            races = rng.sample(races, 160)
        for (s0, a, b), k in races:
            yield {'kind': 'race', 'pilots': [[1, s0]], 'a': [1, a], 'b': [1, b], 'k': k}
        import itertools
        # the launching component: a bulk over several (resource, schema) buckets, some of which fail to launch
        nl = 150 if tier == 'quick' else 2500
        for _ in range(nl):
            npil = rng.randint(1, 6)
            nres, nsch = rng.randint(1, 3), rng.randint(1, 2)
            pilots = [[u, rng.randint(1, nres), rng.randint(1, nsch)] for u in range(1, npil + 1)]
            rng.shuffle(pilots)
            keys = sorted(set((r, s) for _, r, s in pilots))
            fails = [list(k) for k in keys if rng.random() < 0.4]
            if rng.random() < 0.15:
                fails.append([9, 9])                      # a bucket nobody is in
            canc = [u for u, _, _ in pilots if rng.random() < 0.15] + ([77] if rng.random() < 0.1 else [])
            yield {'kind': 'launch', 'pilots': pilots, 'fails': fails, 'cancelled': canc,
                   'single': npil == 1 and rng.random() < 0.5}
        for npil in (1, 2, 3):
            for assign in itertools.product([(1, 1), (2, 1)], repeat=npil):
                for fl in ([], [[1, 1]], [[2, 1]], [[1, 1], [2, 1]]):
                    yield {'kind': 'launch', 'pilots': [[u + 1, r, s] for u, (r, s) in enumerate(assign)],
                           'fails': fl, 'cancelled': [], 'single': False}
        evs = [['lifetime', False, True], ['lifetime', True, False], ['lifetime', True, True],
               ['cancel', True], ['cancel', False], ['cancel', False, 'empty'], ['cancel', True, 'among'],
               ['terminate'],
               ['service', True, True], ['service', True, False], ['service', False, True],
               ['heartbeat', True], ['other']]
        maxlen = 3 if tier == 'quick' else 4
        for k in range(0, maxlen + 1):
            for seq in itertools.product(evs, repeat=k):
                yield {'kind': 'cause', 'events': [list(e) for e in seq]}

    def impl_setup(self):
        self.rp = rp_import()
        txt = open(os.path.join(REPO, 'src/radical/pilot/agent/bootstrap_0.sh')).read()
        self.bootstrap_ok = ('final_state=$(cat ./killme.signal)' in txt and
                             "final_state='FAILED'" in txt and 'test -z "$final_state"' in txt)

    def _mk(self, pilots):
        from radical.pilot.pilot import Pilot
        from radical.pilot.pilot_manager import PilotManager
        import radical.pilot.constants as rpc
        log = mock.MagicMock()
        with mock.patch.object(PilotManager, '__init__', return_value=None):
            pm = PilotManager()
        pm._pilots_lock = threading.RLock()
        pm._pcb_lock = threading.RLock()
        pm._log = log
        pm._uid = 'pmgr.0000'
        pm._pilots = {}
        seen, adv = [], []
        pm.advance = lambda things, state=None, publish=False, push=False: adv.append([things['uid'], state])

        def mcb(pilot, state):
            seen.append([int(pilot.uid.split('.')[1]), state])
        pm._callbacks = {rpc.PILOT_STATE: {'rec': {'cb': mcb, 'cb_data': None}}}
        pseen = []
        for u, s in pilots:
            with mock.patch.object(Pilot, '__init__', return_value=None):
                p = Pilot()
            p._uid = 'pilot.%04d' % u
            p._state = s
            p._log = log
            p._sub = mock.MagicMock()
            p._pilot_dict = {}
            p._cb_lock = threading.RLock()
            p._pmgr = pm
            p._exit_on_error = False

            def pcb(ps, _u=u):
                pseen.append([_u, ps[0].state])
            p._callbacks = {rpc.PILOT_STATE: {'rec': {'cb': pcb, 'cb_data': None}}}
            pm._pilots[p._uid] = p
        return pm, seen, pseen, adv

    def run_launch(self, case):
        from radical.pilot.pmgr.launching.base import PMGRLaunchingComponent
        import radical.pilot.states as rps
        with mock.patch.object(PMGRLaunchingComponent, '__init__', return_value=None):
            c = PMGRLaunchingComponent()
        c._log = mock.MagicMock()
        c._prof = mock.MagicMock()
        c._uid = 'pmgr_launching.0000'
        c._cancelled = ['pilot.%04d' % u for u in case['cancelled']]
        fails = set((r, s) for r, s in case['fails'])
        advs, started = [], []

        def advance(things, state=None, publish=False, push=False, **kw):
            things = things if isinstance(things, list) else [things]
            advs.append([[int(t['uid'].split('.')[1]) for t in things], state])

        def start(resource, schema, pilots):
            key = (int(resource.split('.')[1]), int(schema.split('.')[1]))
            started.append([key[0], key[1], [int(p['uid'].split('.')[1]) for p in pilots]])
            if key in fails:
                raise RuntimeError('injected: launch of %s/%s refused' % (resource, schema))
        c.advance = advance
        c._start_pilot_bulk = start
        pilots = [{'uid': 'pilot.%04d' % u, 'type': 'pilot', 'state': rps.PMGR_LAUNCHING_PENDING,
                   'description': {'resource': 'res.%d' % r, 'access_schema': 'sch.%d' % s}}
                  for u, r, s in case['pilots']]
        exc = None
        try:
            c.work(pilots[0] if case.get('single') else pilots)
        except BaseException as e:                                                               # noqa
            exc = type(e).__name__
        names = {rps.CANCELED: 'LCanceled', rps.PMGR_LAUNCHING: 'LLaunching',
                 rps.PMGR_ACTIVE_PENDING: 'LActivePending', rps.FAILED: 'LFailed'}
        return {'advs': [[us, names.get(st, 'other:%s' % st)] for us, st in advs], 'started': started, 'exc': exc}

    def run_impl(self, case):
        import radical.pilot.states as rps
        if case['kind'] == 'launch':
            return self.run_launch(case)
        if case['kind'] == 'progress':
            try:
                new, passed = rps._pilot_state_progress('pilot.0001', case['cur'], case['tgt'])
                return {'new': new, 'passed': list(passed)}
            except Exception as e:
                return {'exc': type(e).__name__}
        if case['kind'] == 'run':
            pm, seen, pseen, adv = self._mk(case['pilots'])
            errs = []
            for u, s in case['notes']:
                try:
                    pm._update_pilot({'uid': 'pilot.%04d' % u, 'state': s, 'type': 'pilot'})
                except Exception as e:
                    errs.append(type(e).__name__)
            return {'cbs': seen, 'pcbs': pseen, 'errs': errs,
                    'states': [[u, pm._pilots['pilot.%04d' % u].state] for u, _ in case['pilots']]}
        if case['kind'] == 'race':
            from . import interleave as IL
            from radical.pilot.pilot import Pilot
            from radical.pilot.pilot_manager import PilotManager
            pm, seen, pseen, adv = self._mk(case['pilots'])
            codes = IL.code_of(PilotManager._update_pilot, Pilot._update, rps._pilot_state_progress)
            mk = lambda n: (lambda: pm._update_pilot({'uid': 'pilot.%04d' % n[0], 'state': n[1], 'type': 'pilot'}))
            r = IL.run_pair(mk(case['a']), mk(case['b']), codes, case['k'], block_s=0.05)
            return {'cbs': seen, 'pcbs': pseen, 'a_exc': r['a_exc'], 'b_exc': r['b_exc'], 'held': r['held'],
                    'b_blocked': r['b_blocked'],
                    'states': [[u, pm._pilots['pilot.%04d' % u].state] for u, _ in case['pilots']]}
        # cause
        from radical.pilot.agent.agent_0 import Agent_0
        import radical.pilot.utils as rpu
        import radical.utils as ru
        with mock.patch.object(Agent_0, '__init__', return_value=None):
            a = Agent_0()
        a._log = mock.MagicMock()
        a._pid = 'pilot.0000'
        a._uid = 'agent_0'
        a._final_cause = None
        a._session = mock.MagicMock()
        a._rm = mock.MagicMock()
        a._starttime = 1000.0
        a.publish = mock.MagicMock()
        a.stage_output = mock.MagicMock()
        advanced = []
        a.advance = lambda things, state=None, publish=False, push=False: advanced.append(things['state'])
        a._prof = mock.MagicMock()
        a._pmgr = 'pmgr.0000'
        a._reg = {}
        a._service_uid_launched = 'service.0000'
        a._service_uids_running = []
        a._service_start_evt = threading.Event()
        try:
            os.unlink('./killme.signal')
        except OSError:
            pass
        with mock.patch.object(rpu.AgentComponent, 'stop', return_value=None), \
             mock.patch('radical.pilot.agent.agent_0.rpu.get_rusage', return_value='', create=True):
            for e in case['events']:
                if e[0] == 'lifetime':
                    a._cfg = ru.Config(from_dict={'runtime': 10 if e[1] else 0})
                    now = 1000.0 + (601 if e[2] else 5)
                    with mock.patch('radical.pilot.agent.agent_0.time.time', return_value=now):
                        a._check_lifetime()
                elif e[0] == 'cancel':
                    # through the real dispatcher of control messages
                    # the uid list of the request: this pilot alone or among others; another pilot; or EMPTY -- what
                    # a pilot manager that owns no pilot publishes on close() / cancel_pilots() (forwarded to every
                    # agent of the session): it names nobody
                    shape = e[2] if len(e) > 2 else None
                    uids = ['pilot.0000'] if e[1] else ['pilot.0009']
                    if shape == 'empty':
                        uids = []
                    if shape == 'among':
                        uids = ['pilot.0009', 'pilot.0000', 'pilot.0010']
                    a.control_cb('control_pubsub', {'cmd': 'cancel_pilots', 'arg': {'uids': uids, 'pmgr': 'pmgr.0001'}})
                elif e[0] == 'service':
                    a.control_cb('control_pubsub', {'cmd': 'service_info',
                                                    'arg': {'uid': 'service.0000' if e[1] else 'service.0007',
                                                            'error': 'startup failed' if e[2] else None,
                                                            'info': {}}})
                elif e[0] == 'heartbeat':
                    a.control_cb('control_pubsub', {'cmd': 'pmgr_heartbeat',
                                                    'arg': {'pmgr': 'pmgr.0000' if e[1] else 'pmgr.0009'}})
                elif e[0] == 'other':
                    a.control_cb('control_pubsub', {'cmd': 'rpc_req', 'arg': {}})
                else:
                    a.stop()
            a.finalize()
        sig = open('./killme.signal').read().strip()
        return {'signal': sig, 'advanced': advanced, 'bootstrap_ok': self.bootstrap_ok}

    def coq_row(self, case, obs):
        if case['kind'] == 'launch':
            bad = obs['exc'] is not None or any(st.startswith('other') for _, st in obs['advs'])
            ps = L.lst(['(mkLP %s %s %s)' % (L.Z(u), L.Z(r), L.Z(s)) for u, r, s in case['pilots']])
            ob = L.lst(['(%s, %s)' % (L.zlist(us), st) for us, st in obs['advs'] if not st.startswith('other')])
            row = '(launch_row %s %s %s %s ++ [true; %s])' % (
                L.zlist(case['cancelled']), L.lst([L.pair(L.Z(r), L.Z(s)) for r, s in case['fails']]), ps, ob,
                L.boolean(obs['exc'] is None))
            return '(false :: tl %s)' % row if bad else row
        if case['kind'] == 'progress':
            if 'exc' in obs:
                o = '(inl %s)' % errname(obs['exc'])
            else:
                o = '(inr (%s, %s))' % (P(obs['new']), L.lst([P(s) for s in obs['passed']]))
            return '(c14_progress_row %s %s %s ++ [true])' % (P(case['cur']), P(case['tgt']), o)
        if case['kind'] == 'run':
            # both callback kinds must see the same sequence
            same = obs['cbs'] == obs['pcbs']
            o = '(%s, %s, %s)' % (tab(obs['states']), tab(obs['cbs']), L.lst([errname(e) for e in obs['errs']]))
            row = '(c14_run_row %s %s %s)' % (tab(case['pilots']), tab(case['notes']), o)
            # the only exception the update path may raise is the ValueError for a final state contradicting DONE
            row = '(%s ++ [%s])' % (row, L.boolean(all(e == 'ValueError' for e in obs['errs'])))
            return row if same else '(false :: tl %s)' % row
        if case['kind'] == 'race':
            if not obs['held']:
                return '[true; true; true; true; true]'          # the update code has fewer than k lines
            same = obs['cbs'] == obs['pcbs']
            ea = [obs['a_exc']] if obs['a_exc'] else []
            eb = [obs['b_exc']] if obs['b_exc'] else []
            mk = lambda errs: '(%s, %s, %s)' % (tab(obs['states']), tab(obs['cbs']), L.lst([errname(e) for e in errs]))
            row = '(c14_race_row %s %s %s %s %s)' % (tab(case['pilots']), L.pair(L.Z(case['a'][0]), P(case['a'][1])),
                                                  L.pair(L.Z(case['b'][0]), P(case['b'][1])), mk(ea + eb), mk(eb + ea))
            row = '(%s ++ [%s])' % (row, L.boolean(all(e == 'ValueError' for e in ea + eb)))
            return row if same else '(false :: tl %s)' % row
        sig = obs['signal']
        ok = sig in ('DONE', 'CANCELED', 'FAILED') and obs['advanced'] == [sig] and obs['bootstrap_ok']
        f = 'F_' + sig if sig in ('DONE', 'CANCELED', 'FAILED') else 'F_FAILED'
        row = '(c14_cause_row %s %s ++ [true])' % (L.lst([ev(e) for e in case['events']]), f)
        return row if ok else '(false :: tl %s)' % row

    def model_show(self, case):
        if case['kind'] == 'launch':
            return 'work %s (fails_of %s) %s' % (
                L.zlist(case['cancelled']), L.lst([L.pair(L.Z(r), L.Z(s)) for r, s in case['fails']]),
                L.lst(['(mkLP %s %s %s)' % (L.Z(u), L.Z(r), L.Z(s)) for u, r, s in case['pilots']]))
        if case['kind'] == 'progress':
            return 'p_progress %s %s' % (P(case['cur']), P(case['tgt']))
        if case['kind'] == 'run':
            return 'p_run %s %s' % (tab(case['pilots']), tab(case['notes']))
        if case['kind'] == 'race':
            return '(p_run %s %s, p_run %s %s)' % (tab(case['pilots']), tab([case['a'], case['b']]),
                                                   tab(case['pilots']), tab([case['b'], case['a']]))
        return '(agent_final %s, spec_final %s)' % ((L.lst([ev(e) for e in case['events']]),) * 2)

    def nontrivial(self, case, obs):
        if case['kind'] == 'launch':
            keys = set((r, s) for _, r, s in case['pilots'])
            hit = [k for k in keys if list(k) in case['fails']]
            return len(keys) >= 2 and 0 < len(hit) < len(keys)
        if case['kind'] == 'progress':
            return case['cur'] != case['tgt']
        if case['kind'] == 'run':
            return len(case['notes']) >= 3 and any(s in ('DONE', 'FAILED', 'CANCELED') for _, s in case['notes'])
        if case['kind'] == 'race':
            return bool(obs['held'])
        return any(e[0] == 'terminate' or (e[0] == 'cancel' and e[1]) or (e[0] == 'lifetime' and e[1] and e[2])
                   for e in case['events'])

    def signature(self, case, obs, clause):
        if case['kind'] == 'launch':
            return '%s:PMGRLaunchingComponent.work' % clause
        if case['kind'] == 'cause':
            return '%s:Agent_0.finalize' % clause
        if case['kind'] == 'run':
            return '%s:PilotManager._update_pilot' % clause
        if case['kind'] == 'race':
            return '%s:PilotManager._update_pilot:two-threads' % clause
        return '%s:progress:%s->%s' % (clause, case['cur'], case['tgt'])

    def shrink(self, case):
        if case['kind'] == 'launch':
            ps = case['pilots']
            for i in range(len(ps)):
                if len(ps) > 1:
                    yield dict(case, pilots=ps[:i] + ps[i + 1:], single=False)
            for i in range(len(case['fails'])):
                yield dict(case, fails=case['fails'][:i] + case['fails'][i + 1:])
            if case['cancelled']:
                yield dict(case, cancelled=[])
        if case['kind'] == 'run':
            ns = case['notes']
            for i in range(len(ns)):
                yield dict(case, notes=ns[:i] + ns[i + 1:])
        if case['kind'] == 'cause':
            es = case['events']
            for i in range(len(es)):
                yield dict(case, events=es[:i] + es[i + 1:])

    def distribution(self, results):
        kinds = {}
        for r in results:
            kinds[r['case']['kind']] = kinds.get(r['case']['kind'], 0) + 1
        return dict(kinds=kinds)


PROP = C14()
