"""Raptor relay of the agent scheduler (embedded into C05 and C08 as `relay:*`, not registered by itself).

Implementation under test: the REAL AgentSchedulingComponent.work / _schedule_incoming and the REAL
BaseComponent._control_cb (which registers the uids of a cancel request on the component's cancel list and calls the
scheduler's control_cb: register_raptor_queue, unregister_raptor_queue, cancel_tasks) with is_canceled, on a real
Continuous scheduler object built without
__init__ (harness/schedlib.py set-up, one node with enough cores for everything that is scheduled here), with
recording stand-ins for ru.zmq.Putter and advance.  A case is a sequence of operations

    ['arrive', [[uid, name | None, raptor_seen, raptor_worker], ...]]   work(tasks): one bulk onto the scheduler queue
    ['drain']                                                           _schedule_incoming()
    ['reg', name, qid] / ['unreg', name] / ['cancel', [uids]]           _control_cb(...) -> control_cb(...)

(name 0 is the wildcard '*', name k > 0 is 'raptor.%04d' % k; every registration makes a new Putter, told apart by
qid) or such a sequence followed by control_cb(a) and _schedule_incoming() in two real threads, one of them held after
its k-th line (harness/interleave.py).  After every operation the effects it caused and the state (scheduler queue,
registered queues in dict order, backlog in dict order, cancel list, set of unregistered names) are recorded and compared with RP.Relay.Model inside Coq; the
clauses are evaluated on the recorded trace (RP.Relay.Oracle)."""
import itertools
import json
import os
import threading
from unittest import mock

from . import coqlit as L
from . import interleave as IL
from . import schedlib as SL
from .core import Prop, rp_import, VERIF

CLAUSES = ['forwarded_at_most_once', 'exactly_one_place', 'no_forward_after_final', 'cancel_in_backlog',
           'bystanders_unaffected', 'register_relays_all', 'unregister_fails_backlog',
           'seen_and_workers_scheduled_here', 'no_wait_for_registered', 'cancel_on_queue', 'no_wait_for_gone_master',
           'linearizable']
NCORES = 96


def rname(k):
    return '*' if k == 0 else 'raptor.%04d' % k


def rnum(s):
    return 0 if s == '*' else int(s.split('.')[1])


class FakePutter(object):
    """stands in for ru.zmq.Putter(channel, url): records what is put, by the thread that puts it"""
    drv = None

    def __init__(self, channel=None, url=None, *a, **k):
        self.qid = int(str(channel).split('.')[1])

    def put(self, things, qname=None):
        if isinstance(things, list):
            self.drv.emit(['put', self.qid, [SL.num_of(t['uid']) for t in things]])
        else:
            self.drv.emit(['put1', self.qid, SL.num_of(things['uid'])])


class Driver(object):
    def __init__(self, rp):
        self.rp = rp
        self.sd = SL.SchedDriver(rp)
        self.tl = threading.local()

    # ------------------------------------------------------------------ recording
    def emit(self, e):
        getattr(self.tl, 'sink', self.events).append(e)

    def advance(self, things, state=None, publish=True, push=False, qname=None, ts=None, fwd=False, prof=True):
        if not isinstance(things, list):
            things = [things]
        us = [SL.num_of(t['uid']) for t in things]
        for t in things:
            if state is not None:
                t['state'] = state
        if state == 'FAILED':
            for u in us:
                self.emit(['fail', u])
        elif state == 'CANCELED':
            if push:
                self.emit(['cancel', us])         # control_cb: one call for the whole request
            else:
                for u in us:                      # is_canceled (the _CANCEL item finds the wait pool empty: [])
                    self.emit(['cancel1', u])
        elif state == SL.AGENT_EXECUTING_PENDING:
            for u in us:
                self.emit(['sched1', u])
        elif state != 'AGENT_SCHEDULING':
            self.emit(['other', us])

    @staticmethod
    def merge(evs):
        out = []
        for e in evs:
            if e[0] == 'sched1':
                if out and out[-1][0] == 'sched':
                    out[-1][1].append(e[1])
                else:
                    out.append(['sched', [e[1]]])
            else:
                out.append(e)
        return out

    # ------------------------------------------------------------------ set-up
    def build(self):
        case = {'cfg': {'cpn': NCORES, 'gpn': 0, 'lfs': 0, 'mem': 0, 'scattered': True},
                'nodes': [{'cores': [0] * NCORES, 'gpus': []}], 'names': 'unique'}
        s = self.sd.build(case)
        s._raptor_queues = dict()
        s._raptor_tasks = dict()
        s._raptor_lock = threading.Lock()
        s._raptor_gone = set()

        class Term(object):
            def is_set(self_inner):
                return False
        s._term = Term()
        self.events = []
        s.advance = self.advance
        drv = self

        def warn(fmt, *args):
            drv.emit(['warn', rnum(args[0]) if args and isinstance(args[0], str) and
                      (args[0] == '*' or args[0].startswith('raptor.')) else -1])
        s._log.warn = warn
        s._log.warning = warn
        FakePutter.drv = self
        self.s = s
        return s

    def task(self, t):
        uid, name, seen, worker = t
        d = SL.task_dict({'uid': uid, 'ranks': 1, 'cpr': 1, 'gpr': 0, 'lfs': 0, 'mem': 0, 'rpn': 0, 'prio': 0,
                          'colo': None, 'excl': False, 'env': None, 'slots': None})
        # no raptor id: None, or the empty string a description may carry just as well
        d['description']['raptor_id'] = rname(name) if name is not None else (None if uid % 2 else '')
        if worker:
            d['description']['mode'] = self.rp.RAPTOR_WORKER
        if seen:
            d['raptor_seen'] = True
        return d

    def untask(self, d):
        rid = d['description'].get('raptor_id')
        return [SL.num_of(d['uid']), rnum(rid) if rid else None, 1 if d.get('raptor_seen') else 0,
                1 if d['description'].get('mode') == self.rp.RAPTOR_WORKER else 0]

    def snapshot(self):
        s = self.s
        inq = [[self.untask(d) for d in data] for data, flag in list(s._queue_sched.queue) if flag == s._SCHEDULE]
        return {'inq': inq,
                'queues': [[rnum(n), p.qid] for n, p in s._raptor_queues.items()],
                'backlog': [[rnum(n), [SL.num_of(t['uid']) for t in ts]] for n, ts in s._raptor_tasks.items()],
                'clist': [SL.num_of(u) for u in s._cancel_list],
                'gone': sorted(rnum(n) for n in s._raptor_gone)}

    def call(self, o):
        s = self.s
        if o[0] == 'arrive':
            return lambda: s.work([self.task(t) for t in o[1]])
        if o[0] == 'drain':
            return lambda: s._schedule_incoming()
        if o[0] == 'reg':
            msg = {'cmd': 'register_raptor_queue',
                   'arg': {'name': rname(o[1]), 'queue': 'q.%d' % o[2], 'addr': 'tcp://localhost:%d' % (10000 + o[2])}}
        elif o[0] == 'unreg':
            msg = {'cmd': 'unregister_raptor_queue', 'arg': {'name': rname(o[1])}}
        else:
            msg = {'cmd': 'cancel_tasks', 'arg': {'uids': [SL.uid_of(u) for u in o[1]]}}
        # the scheduler process subscribes BaseComponent._control_cb: it registers the uids of a cancel request on the
        # component's cancel list and then calls control_cb; every other command is passed on to control_cb
        return lambda: s._control_cb('control_pubsub', msg)

    def run_ops(self, ops):
        out = []
        for o in ops:
            self.events = []
            self.call(o)()
            out.append([self.merge(self.events), self.snapshot()])
        self.events = []
        return out

    def run(self, case):
        import radical.utils as ru
        self.build()
        with mock.patch.object(ru.zmq, 'Putter', FakePutter):
            pre = self.run_ops(case['ops'])
            if case['kind'] == 'seq':
                return {'pre': pre}
            ea, eb = [], []
            fa, fb = self.call(case['a']), self.call(['drain'])

            def wrap(fn, sink):
                def w():
                    self.tl.sink = sink
                    fn()
                return w
            s = self.s
            codes = IL.code_of(type(s).control_cb, type(s)._schedule_incoming, type(s)._control_cb,
                               type(s).is_canceled)
            import sys
            old = sys.getswitchinterval()
            sys.setswitchinterval(0.05)
            try:
                if case['first'] == 'ctl':
                    r = IL.run_pair(wrap(fa, ea), wrap(fb, eb), codes, case['k'], block_s=0.05, total_s=10.0)
                    exc = [r['a_exc'], r['b_exc']]
                else:
                    r = IL.run_pair(wrap(fb, eb), wrap(fa, ea), codes, case['k'], block_s=0.05, total_s=10.0)
                    exc = [r['b_exc'], r['a_exc']]
            finally:
                sys.setswitchinterval(old)
            return {'pre': pre, 'ea': self.merge(ea), 'eb': self.merge(eb), 'fin': self.snapshot(), 'exc': exc,
                    'held': r['held'], 'b_blocked': r['b_blocked'], 'lines': r['lines']}


# ------------------------------------------------------------------------------
# Coq literals
#
def c_task(t):
    return '(mkT %s %s %s %s)' % (L.Z(t[0]), L.opt(L.Z(t[1]) if t[1] is not None else None),
                                  L.boolean(t[2]), L.boolean(t[3]))


def c_op(o):
    if o[0] == 'arrive':
        return '(Arrive %s)' % L.lst([c_task(t) for t in o[1]])
    if o[0] == 'drain':
        return 'Drain'
    if o[0] == 'reg':
        return '(Register %s %s)' % (L.Z(o[1]), L.Z(o[2]))
    if o[0] == 'unreg':
        return '(Unregister %s)' % L.Z(o[1])
    return '(Cancel %s)' % L.zlist(o[1])


def c_out(e):
    k = e[0]
    if k == 'put':
        return '(OPut %s %s)' % (L.Z(e[1]), L.zlist(e[2]))
    if k == 'put1':
        return '(OPut1 %s %s)' % (L.Z(e[1]), L.Z(e[2]))
    if k == 'fail':
        return '(OFail %s)' % L.Z(e[1])
    if k == 'cancel':
        return '(OCancel %s)' % L.zlist(e[1])
    if k == 'cancel1':
        return '(OCancel1 %s)' % L.Z(e[1])
    if k == 'sched':
        return '(OSched %s)' % L.zlist(e[1])
    if k == 'warn':
        return '(OWarn %s)' % L.Z(e[1])
    return '(OWarn %s)' % L.Z(-7)            # an effect the model does not have


def c_outs(es):
    return L.lst([c_out(e) for e in es])


def c_state(sn):
    return '(mkS %s %s %s %s %s)' % (L.lst([L.lst([c_task(t) for t in b]) for b in sn['inq']]),
                                     L.lst(['(%s, %s)' % (L.Z(n), L.Z(q)) for n, q in sn['queues']]),
                                     L.lst(['(%s, %s)' % (L.Z(n), L.zlist(us)) for n, us in sn['backlog']]),
                                     L.zlist(sn['clist']), L.zlist(sn['gone']))


def c_obs(pre):
    return L.lst(['(%s, %s)' % (c_outs(e), c_state(sn)) for e, sn in pre])


# ------------------------------------------------------------------------------
# generation
#
def gen_ops(rng, nmax=14, masters=None, dup=False):
    masters = rng.randint(0, 3) if masters is None else masters
    names = list(range(1, masters + 1))
    targets = [0, 0] + names + names + [rng.randint(1, 3)]     # wildcard, known masters, maybe one that never comes
    ops, uid, qid = [], 0, 0
    arrived, registered = [], []
    for _ in range(rng.randint(3, nmax)):
        r = rng.random()
        if r < 0.40:
            bulk = []
            for _k in range(rng.choice([1, 1, 2, 2, 3, 4, 5])):
                uid += 1
                u = uid
                if dup and arrived and rng.random() < 0.15:
                    u = rng.choice(arrived)
                x = rng.random()
                name = None if x < 0.12 else rng.choice(targets)
                bulk.append([u, name, 1 if rng.random() < 0.10 else 0, 1 if rng.random() < 0.08 else 0])
                arrived.append(u)
            ops.append(['arrive', bulk])
            if rng.random() < 0.75:
                ops.append(['drain'])
        elif r < 0.50:
            ops.append(['drain'])
        elif r < 0.68:
            qid += 1
            n = rng.choice(names + names + registered + [0, rng.randint(1, 3)]) if (names or registered) else \
                rng.choice([0, 1, 1, 2])
            ops.append(['reg', n, qid])
            registered.append(n)
        elif r < 0.80:
            n = rng.choice(registered + registered + [0, rng.randint(1, 3)]) if registered else rng.choice([0, 1, 2])
            ops.append(['unreg', n])
        else:
            k = rng.randint(1, 3)
            us = [rng.choice(arrived) if arrived and rng.random() < 0.85 else uid + rng.randint(1, 3) for _ in range(k)]
            ops.append(['cancel', us])
    if rng.random() < 0.6:
        ops.append(['drain'])
    return ops


def ctl_op(rng, ops):
    uids = [t[0] for o in ops if o[0] == 'arrive' for t in o[1]]
    regs = [o[1] for o in ops if o[0] == 'reg']
    qid = 1 + max([o[2] for o in ops if o[0] == 'reg'] + [0])
    r = rng.random()
    if r < 0.4:
        return ['reg', rng.choice(regs + [0, 1, 2, 3]), qid]
    if r < 0.65:
        return ['unreg', rng.choice(regs + [0, 1, 2])]
    return ['cancel', rng.sample(uids, min(len(uids), rng.randint(1, 3))) if uids else [1]]


def T(u, n):
    return [u, n, 0, 0]


# directed sequences (each once): the corner cases named in the model
FIXED = [
    # wildcard backlog, first master gets it, a second master and a re-registration get nothing
    [['arrive', [T(1, 0), T(2, 0), T(3, 0)]], ['drain'], ['reg', 1, 1], ['reg', 2, 2], ['reg', 1, 3],
     ['cancel', [1, 2]], ['arrive', [T(4, 0), T(5, 0), T(6, 0)]], ['drain']],
    # named and wildcard backlog relayed in this order; later arrivals go straight through
    [['arrive', [T(1, 0), T(2, 1), T(3, 2), T(4, 1)]], ['drain'], ['reg', 1, 1], ['arrive', [T(5, 1), T(6, 0)]],
     ['drain'], ['reg', 2, 2], ['cancel', [1, 2, 3, 4, 5, 6]]],
    # cancel in the backlog: the emptied backlog stays a key and is relayed as an empty list
    [['arrive', [T(1, 1), T(2, 1), T(3, 0)]], ['drain'], ['cancel', [2, 1]], ['cancel', [3, 9]], ['reg', 1, 1],
     ['cancel', [1, 2, 3]]],
    # unregister: the backlog of that name fails, unknown names warn; later arrivals wait again
    [['arrive', [T(1, 1), T(2, 2)]], ['drain'], ['unreg', 1], ['reg', 2, 1], ['unreg', 2], ['unreg', 2],
     ['arrive', [T(3, 2), T(4, 0)]], ['drain'], ['reg', 2, 2], ['unreg', 0]],
    # a queue called '*': wildcard tasks go there in one put; round robin otherwise, by position in the drain
    [['reg', 1, 1], ['reg', 2, 2], ['arrive', [T(1, 0), T(2, 1), T(3, 0)]], ['arrive', [T(4, 0), T(5, 0)]], ['drain'],
     ['reg', 0, 3], ['arrive', [T(6, 0), T(7, 0)]], ['drain'], ['unreg', 0], ['arrive', [T(8, 0)]], ['drain'],
     ['unreg', 1], ['unreg', 2], ['arrive', [T(9, 0)]], ['drain'], ['reg', 0, 4]],
    # not forwarded: no raptor id, seen by raptor, raptor worker
    [['arrive', [[1, None, 0, 0], [2, 1, 1, 0], [3, 1, 0, 1], [4, 1, 0, 0], [5, 0, 1, 0], [6, None, 0, 1]]],
     ['drain'], ['reg', 1, 1], ['arrive', [[4, 1, 1, 0]]], ['drain']],
    # several bulks in one drain; a request that arrives while the tasks are still on the scheduler queue
    [['arrive', [T(1, 1)]], ['arrive', [T(2, 1), T(3, 2)]], ['cancel', [1]], ['drain'], ['cancel', [2]],
     ['reg', 1, 1], ['unreg', 2]],
]


# directed thread pairs, every hold point: control_cb(a) against the drain of what is on the scheduler queue
FIXED_PAIR = [
    ([['arrive', [T(1, 1), T(2, 0)]]], ['reg', 1, 1]),
    ([['arrive', [T(1, 1), T(2, 1)]], ['drain'], ['arrive', [T(3, 1)]]], ['cancel', [1, 3]]),
    ([['reg', 1, 1], ['arrive', [T(1, 1), T(2, 0)]]], ['unreg', 1]),
]
PAIR_KS = {'inc': 75, 'ctl': 60}       # more lines than either call executes on these cases


class Relay(Prop):
    id = 'C05'                  # embedded into C05 and C08; rows are judged under the host's id
    module = 'relay'
    props_files = []
    extra_targets = ['Relay/Oracle.vo', 'Relay/Proofs.vo', 'Relay/History.vo', 'Relay/Frame.vo', 'Relay/OracleProofs.vo']
    model_targets = ['Relay/Oracle.vo']
    header = 'From RP Require Import Relay.Model Relay.Oracle.'
    clauses = CLAUSES
    corr_name = ('Relay.Model.trace vs the real AgentSchedulingComponent.work / _schedule_incoming / '
                 'BaseComponent._control_cb + control_cb (register_raptor_queue, unregister_raptor_queue, cancel_tasks) '
                 '/ is_canceled: effects of every call and the scheduler queue, registered queues, backlog, cancel '
                 'list and unregistered names after it')
    trusted = ['raptor relay: harness/relay.py (real Continuous scheduler object without __init__ as in '
               'harness/schedlib.py, recording stand-ins for ru.zmq.Putter and advance; two real threads with one held '
               'by a line tracer, harness/interleave.py)']
    rule = ('raptor relay: directed sequences; random sequences of 3-16 work / _schedule_incoming / register / '
            'unregister / cancel calls with 0-3 raptor masters, wildcard traffic, a queue called *, re-registration, '
            'unregister and register again, cancels naming waiting / still queued / forwarded / unknown uids, tasks '
            'for unregistered masters, bulks mixing names, '
            'tasks without raptor id / seen by raptor / raptor workers, a few repeated uids; _control_cb against '
            '_schedule_incoming in two threads at seed-chosen hold points; thorough: every sequence of <= 4 steps '
            'over a 9-letter alphabet')

    def corpus(self):
        d = os.path.join(VERIF, 'corpus', 'Relay')
        out = []
        if os.path.isdir(d):
            for f in sorted(os.listdir(d)):
                if f.endswith('.json'):
                    out.append(json.load(open(os.path.join(d, f)))['case'])
        return out

    def cases(self, rng, tier):
        quick = tier == 'quick'
        for ops in FIXED:
            yield {'kind': 'seq', 'ops': ops}
        for i in range(220 if quick else 6000):
            yield {'kind': 'seq', 'ops': gen_ops(rng, nmax=rng.choice([8, 12, 16]), dup=rng.random() < 0.05)}
        for ops, a in FIXED_PAIR:
            for first in ('inc', 'ctl'):
                for k in range(0, PAIR_KS[first] + 1):
                    yield {'kind': 'pair', 'ops': ops, 'a': a, 'k': k, 'first': first}
        for i in range(16 if quick else 300):
            ops = gen_ops(rng, nmax=8)
            if ops and ops[-1] == ['drain'] and rng.random() < 0.7:
                ops = ops[:-1]                       # leave something on the scheduler queue for the racing drain
            a = ctl_op(rng, ops)
            for j in range(4 if quick else 13):
                first = rng.choice(['ctl', 'inc', 'inc'])
                yield {'kind': 'pair', 'ops': ops, 'a': a, 'k': 0 if j == 0 else rng.randint(1, PAIR_KS[first]),
                       'first': first}
        if not quick:
            yield from self.small_scope(4)

    @staticmethod
    def small_scope(maxlen):
        """every sequence of <= maxlen steps over: a bulk for master 1 / for the wildcard (two tasks) / for master 2
        and the wildcard put on the queue, drain, register 1, register 2, unregister 1, cancel the last two uids,
        cancel everything so far"""
        alpha = ['a1', 'aw', 'am', 'd', 'r1', 'r2', 'u1', 'cl', 'ca']
        for n in range(1, maxlen + 1):
            for seq in itertools.product(alpha, repeat=n):
                ops, uid, qid = [], 0, 0
                for x in seq:
                    if x == 'a1':
                        uid += 1
                        ops.append(['arrive', [T(uid, 1)]])
                    elif x == 'aw':
                        uid += 2
                        ops.append(['arrive', [T(uid - 1, 0), T(uid, 0)]])
                    elif x == 'am':
                        uid += 2
                        ops.append(['arrive', [T(uid - 1, 2), T(uid, 0)]])
                    elif x == 'd':
                        ops.append(['drain'])
                    elif x in ('r1', 'r2'):
                        qid += 1
                        ops.append(['reg', int(x[1]), qid])
                    elif x == 'u1':
                        ops.append(['unreg', 1])
                    elif x == 'cl':
                        ops.append(['cancel', [u for u in (uid - 1, uid) if u > 0] or [1]])
                    else:
                        ops.append(['cancel', list(range(1, uid + 1)) or [1]])
                ops.append(['drain'])
                yield {'kind': 'seq', 'ops': ops}

    def impl_setup(self):
        self.rp = rp_import()
        self.drv = Driver(self.rp)

    def run_impl(self, case):
        if not hasattr(self, 'drv'):
            self.impl_setup()
        return self.drv.run(case)

    def coq_row(self, case, obs):
        ops = L.lst([c_op(o) for o in case['ops']])
        if case['kind'] == 'seq':
            return '(relay_row %s %s)' % (ops, c_obs(obs['pre']))
        row = '(pair_row %s %s %s %s %s %s)' % (ops, c_obs(obs['pre']), c_op(case['a']), c_outs(obs['ea']),
                                                c_outs(obs['eb']), c_state(obs['fin']))
        if any(obs['exc']):
            row = '(firstn 12 %s ++ [false])' % row
        return row

    def model_show(self, case):
        ops = case['ops'] + ([case['a'], ['drain']] if case['kind'] == 'pair' else [])
        return 'trace init %s' % L.lst([c_op(o) for o in ops])

    def nontrivial(self, case, obs):
        if case['kind'] == 'pair':
            return bool(obs.get('held')) and case['k'] > 0
        waited = any(us for _e, sn in obs['pre'] for _n, us in sn['backlog'])
        fwd = sum(1 for e, _sn in obs['pre'] for x in e if x[0] in ('put', 'put1'))
        return waited and fwd >= 1

    def signature(self, case, obs, clause):
        return clause + (':two_threads' if case['kind'] == 'pair' and clause == 'linearizable' else '')

    def shrink(self, case):
        ops = case['ops']
        for i in range(len(ops)):
            yield dict(case, ops=ops[:i] + ops[i + 1:])
        for i, o in enumerate(ops):
            if o[0] == 'arrive' and len(o[1]) > 1:
                for j in range(len(o[1])):
                    yield dict(case, ops=ops[:i] + [['arrive', o[1][:j] + o[1][j + 1:]]] + ops[i + 1:])
            if o[0] == 'cancel' and len(o[1]) > 1:
                for j in range(len(o[1])):
                    yield dict(case, ops=ops[:i] + [['cancel', o[1][:j] + o[1][j + 1:]]] + ops[i + 1:])

    def distribution(self, results):
        kinds, nops, opk, effects = {}, [], {}, {}
        for r in results:
            c = r['case']
            kinds[c['kind']] = kinds.get(c['kind'], 0) + 1
            nops.append(len(c['ops']))
            for o in c['ops']:
                opk[o[0]] = opk.get(o[0], 0) + 1
            if r['obs']:
                for e, _sn in r['obs']['pre']:
                    for x in e:
                        effects[x[0]] = effects.get(x[0], 0) + 1
        return dict(kinds=kinds, mean_ops=round(sum(nops) / max(1, len(nops)), 1), operations=opk, effects=effects)


PROP = Relay()
