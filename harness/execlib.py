"""Driver for the executor (agent/executing/popen.py + base.py + the intake
filter of utils/component.py) used by C07 and by the executor part of C08.

The REAL methods run in four real threads
    I  intake      : BaseComponent.work_cb()  once per input batch
    C  control     : BaseComponent._control_cb(topic, cancel_tasks msg) once per message
    W  watcher     : Popen._watch()           (the real loop)
    T  timeout     : AgentExecutingComponent._to_watcher()  (the real loop)
under a line-granular cooperative scheduler built on sys.settrace: every thread
parks at every `line` event inside the traced code objects until the scheduler
grants it the next line.  Shared objects (self._tasks, the task dicts' 'proc'
entry, the three locks, the cancel list, the watch queue, the fake process
object, os.killpg, advance/publish) are recording wrappers.  One *step* of a
thread = lines are granted until the thread has performed at least one
recorded action and holds no wrapped lock (a lock-protected region is one
step).  A schedule is a list of choices 'I' | 'C' | 'W' | 'T' | ['X', uid, code]
(process exit, the environment step).  The observation is the list of steps
[thread, events, emissions] -- exactly what RP.Exec.Model.run computes.

Nothing in the repository is changed (no hooks).
"""
import json
import queue
import sys
import threading
from unittest import mock

# event kinds (must agree with coq/Exec/Model.v)
EV_CLIST_BOOL, EV_LOCK, EV_CLIST_IN, EV_CLIST_REMOVE, EV_CLIST_EXTEND = 1, 2, 3, 4, 5
EV_TASKS_UPDATE, EV_TASKS_IN, EV_TASKS_DEL, EV_TASKS_GET, EV_TASKS_POP = 7, 8, 9, 10, 11
EV_SPAWN, EV_PROC_SET, EV_PROC_GET, EV_PROC_ITEM, EV_PROC_DEL, EV_PID = 12, 13, 14, 15, 16, 17
EV_POLL, EV_WAIT, EV_KILL = 18, 19, 20
EXECUTOR_GROUP = 'pgid-of-the-executor'
EV_WQ_PUT, EV_WQ_GET, EV_WQ_EMPTY, EV_EXIT, EV_CHECK, EV_GSIG = 23, 24, 25, 26, 27, 28
EV_OTHER = 99
NON_MARKING = {EV_WQ_GET, EV_WQ_EMPTY, EV_PROC_SET}    # a round of pulls ends when _check_running is entered (EV_CHECK)
LOCK_CHECK, LOCK_CANCEL, LOCK_TO = 1, 2, 3

FAULTS = ['none', 'nolauncher', 'script', 'spawn', 'afterspawn']
THREADS = ['I', 'C', 'W', 'T']


def uid_s(u):
    return 'task.%06d' % u


def uid_i(s):
    try:
        return int(str(s).split('.')[1])
    except Exception:
        return -1


class HarnessAnomaly(Exception):
    pass


# ------------------------------------------------------------------------------
class World:
    """All recording state of one case."""

    def __init__(self):
        self.events = []          # (thread, kind, uid, arg) in global order
        self.emissions = []       # (thread, emission)
        self.cur_ev = []          # events of the running grant
        self.cur_em = []
        self.held = {}            # thread name -> number of wrapped locks held
        self.anomalies = []
        self.recording = True
        self.procs = {}           # uid -> FakeProc
        self.blocked = {}         # thread name -> (FakeProc, timeout) while the thread sits in proc.wait()
        self.sch = None

    def block(self, proc, timeout):
        name = self.me()
        if self.sch is None or name not in THREADS or not self.recording:
            return
        self.blocked[name] = (proc, timeout)
        try:
            self.sch.park()
        finally:
            self.blocked.pop(name, None)

    def me(self):
        return threading.current_thread().name

    def rec(self, kind, uid=0, arg=0):
        if not self.recording:
            return
        t = self.me()
        e = [kind, int(uid), int(arg)]
        self.events.append([t] + e)
        self.cur_ev.append((t, e))

    def emit(self, em):
        if not self.recording:
            return
        t = self.me()
        self.emissions.append([t, em])
        self.cur_em.append((t, em))


class WLock:
    def __init__(self, world, lid, aux=None):
        self.w, self.lid, self.aux = world, lid, aux
        self._l = threading.Lock()

    def acquire(self, *a, **k):
        r = self._l.acquire(*a, **k)
        t = self.w.me()
        self.w.held[t] = self.w.held.get(t, 0) + 1
        self.w.rec(EV_LOCK, self.lid, self.aux() if self.aux else 0)
        return r

    def release(self):
        t = self.w.me()
        self.w.held[t] = self.w.held.get(t, 0) - 1
        self._l.release()

    def __enter__(self):
        self.acquire()
        return self

    def __exit__(self, *a):
        self.release()
        return False


class CList(list):
    """self._cancel_list"""
    w = None

    def __len__(self):
        n = list.__len__(self)
        if self.w is not None and self.w.me() in THREADS:
            self.w.rec(EV_CLIST_BOOL, 0, 1 if n else 0)
        return n

    def __contains__(self, x):
        r = list.__contains__(self, x)
        self.w.rec(EV_CLIST_IN, uid_i(x), 1 if r else 0)
        return r

    def remove(self, x):
        self.w.rec(EV_CLIST_REMOVE, uid_i(x), 0)
        return list.remove(self, x)

    def __iadd__(self, other):
        other = list(iter(other))       # (no len() of a recording list)
        self.w.rec(EV_CLIST_EXTEND, 0, len(other))
        list.extend(self, other)
        return self

    def extend(self, other):
        other = list(iter(other))
        self.w.rec(EV_CLIST_EXTEND, 0, len(other))
        list.extend(self, other)

    def append(self, x):
        self.w.rec(EV_CLIST_EXTEND, 0, 1)
        list.append(self, x)


class TasksD(dict):
    """self._tasks"""
    w = None

    def update(self, other=(), **kw):
        for k in dict(other, **kw):
            self.w.rec(EV_TASKS_UPDATE, uid_i(k), 0)
        return dict.update(self, other, **kw)

    def __setitem__(self, k, v):
        self.w.rec(EV_TASKS_UPDATE, uid_i(k), 0)
        return dict.__setitem__(self, k, v)

    def __contains__(self, k):
        r = dict.__contains__(self, k)
        self.w.rec(EV_TASKS_IN, uid_i(k), 1 if r else 0)
        return r

    def __delitem__(self, k):
        self.w.rec(EV_TASKS_DEL, uid_i(k), 1 if dict.__contains__(self, k) else 0)
        return dict.__delitem__(self, k)

    def get(self, k, d=None):
        self.w.rec(EV_TASKS_GET, uid_i(k), 1 if dict.__contains__(self, k) else 0)
        return dict.get(self, k, d)

    def __getitem__(self, k):
        self.w.rec(EV_TASKS_GET, uid_i(k), 1 if dict.__contains__(self, k) else 0)
        return dict.__getitem__(self, k)

    def pop(self, k, *d):
        self.w.rec(EV_TASKS_POP, uid_i(k), 1 if dict.__contains__(self, k) else 0)
        return dict.pop(self, k, *d)


class TaskD(dict):
    """a task dict; accesses to the 'proc' entry are recorded"""
    w = None

    def _u(self):
        return uid_i(dict.get(self, 'uid'))

    def get(self, k, d=None):
        if k == 'proc':
            self.w.rec(EV_PROC_GET, self._u(), 1 if dict.__contains__(self, 'proc') else 0)
        return dict.get(self, k, d)

    def __getitem__(self, k):
        if k == 'proc':
            self.w.rec(EV_PROC_ITEM, self._u(), 1 if dict.__contains__(self, 'proc') else 0)
        return dict.__getitem__(self, k)

    def __setitem__(self, k, v):
        if k == 'proc':
            self.w.rec(EV_PROC_SET, self._u(), 0)
        return dict.__setitem__(self, k, v)

    def __delitem__(self, k):
        if k == 'proc':
            self.w.rec(EV_PROC_DEL, self._u(), 1 if dict.__contains__(self, 'proc') else 0)
        return dict.__delitem__(self, k)

    def pop(self, k, *d):
        if k == 'proc':
            self.w.rec(EV_PROC_DEL, self._u(), 1 if dict.__contains__(self, 'proc') else 0)
        return dict.pop(self, k, *d)


class FakePid:
    """not an int: popen._kill (atexit) skips it"""
    def __init__(self, proc):
        self.proc = proc

    def __index__(self):
        raise TypeError('fake pid')


class FakeProc:
    def __init__(self, world, u, pid_fault, stubborn=False):
        self.w, self.u, self.pid_fault = world, u, pid_fault
        self.stubborn = stubborn    # signals have no effect: the process ends only by the environment step X
        self.state = 'running'      # running | exited | killed
        self.code = None
        self._pid = FakePid(self)

    @property
    def pid(self):
        if self.pid_fault and sys._getframe(1).f_code.co_name == '_launch_task':
            self.pid_fault = False
            self.w.rec(EV_PID, self.u, 0)
            raise RuntimeError('injected failure after spawn')
        self.w.rec(EV_PID, self.u, 1)
        return self._pid

    def _rc(self):
        if self.state == 'running':
            return None
        return self.code if self.state == 'exited' else -9

    def poll(self):
        rc = self._rc()
        self.w.rec(EV_POLL, self.u, 0 if rc is None else 1)
        return rc

    def wait(self, timeout=None):
        """subprocess.Popen.wait: blocks the calling thread while the process runs.  Under the line scheduler
        the thread is parked as `blocked` and has no step until the process has exited (step X).  With a finite
        timeout the wait expires iff the process still runs when the thread is scheduled the next time."""
        if self.state == 'running':
            self.w.block(self, timeout)
            if self.state == 'running' and self.w.recording:
                self.w.rec(EV_WAIT, self.u, 0)
                import subprocess
                raise subprocess.TimeoutExpired('fake process %d' % self.u, timeout)
        rc = self._rc()
        self.w.rec(EV_WAIT, self.u, 0 if rc is None else 1)
        return rc


class WQ(queue.Queue):
    w = None

    def put(self, item, *a, **k):
        self.w.rec(EV_WQ_PUT, uid_i(item.get('uid')), 0)
        return queue.Queue.put(self, item, *a, **k)

    def get_nowait(self):
        try:
            item = queue.Queue.get_nowait(self)
        except queue.Empty:
            self.w.rec(EV_WQ_EMPTY, 0, 0)
            raise
        self.w.rec(EV_WQ_GET, uid_i(item.get('uid')), 0)
        return item


class InQueue:
    def __init__(self):
        self.batches = []

    def get_nowait(self, qname=None, timeout=None):
        return self.batches.pop(0) if self.batches else []


class Term:
    def __init__(self):
        self.stop = False

    def is_set(self):
        return self.stop


# ------------------------------------------------------------------------------
class LineScheduler:
    """Every worker thread parks at each `line` event inside `codes`."""

    def __init__(self, codes, world):
        self.codes = set(codes)
        self.check_code = None        # Popen._check_running: entering it is a recorded action of the watcher
        self.w = world
        self.cv = threading.Condition()
        self.turn = None
        self.parked = {}
        self.done = set()
        self.free = False
        self.block_timeout = 0.25

    # --- worker side
    def _global(self, frame, event, arg):
        if frame.f_code in self.codes:
            if frame.f_code is self.check_code and event == 'call':
                self.w.rec(EV_CHECK, 0, 0)
            return self._local
        return None

    def _local(self, frame, event, arg):
        if event == 'line':
            self.park()
        return self._local

    def park(self):
        if self.free:
            return
        name = threading.current_thread().name
        with self.cv:
            self.parked[name] = True
            self.cv.notify_all()
            while not self.free and self.turn != name:
                self.cv.wait()
            self.turn = None
            self.parked[name] = False

    def worker(self, name, fn):
        def run():
            sys.settrace(self._global)
            try:
                self.park()
                fn()
            except BaseException as e:     # noqa
                self.w.anomalies.append('thread %s died: %s: %s' % (name, type(e).__name__, e))
            finally:
                sys.settrace(None)
                with self.cv:
                    self.done.add(name)
                    self.cv.notify_all()
        th = threading.Thread(target=run, name=name, daemon=True)
        self.parked[name] = False
        return th

    # --- scheduler side
    def wait_parked(self, name, timeout=5.0):
        with self.cv:
            return self.cv.wait_for(lambda: self.parked.get(name) or name in self.done, timeout)

    def line(self, name):
        """let `name` run one line.  -> 'parked' | 'done' | 'blocked'"""
        with self.cv:
            if name in self.done:
                return 'done'
            self.turn = name
            self.parked[name] = False
            self.cv.notify_all()
            ok = self.cv.wait_for(lambda: (self.turn is None and self.parked.get(name)) or name in self.done,
                                  self.block_timeout)
            if name in self.done:
                return 'done'
            return 'parked' if ok else 'blocked'

    def release_all(self):
        with self.cv:
            self.free = True
            self.cv.notify_all()


# ------------------------------------------------------------------------------
def build(rp, world, case):
    """A real Popen executor without __init__, wired to recording fakes."""
    import radical.utils as ru
    import radical.pilot.states as rps
    import radical.pilot.constants as rpc
    from radical.pilot.agent.executing import popen as popen_mod
    from radical.pilot.agent.executing import base as ebase_mod
    from radical.pilot.agent.launch_method import base as lm_mod
    from radical.pilot.utils import component as comp_mod

    for cls in (TasksD, TaskD, CList, WQ):
        cls.w = world

    with mock.patch.object(popen_mod.Popen, '__init__', return_value=None):
        ex = popen_mod.Popen()
    ex._log = mock.MagicMock()
    ex._prof = mock.MagicMock()
    ex._uid = 'agent.executing.0'
    ex._owner = 'verif'
    ex._cfg = mock.MagicMock()
    ex._session = mock.MagicMock()
    # `new_session_per_task` of the resource configuration: every launch process leads a process group of its own
    # (the default), or all of them stay in the group of the executor.  Cases that do not say take either, decided
    # by their content (so that a replay decides the same)
    own = case.get('own_session')
    if own is None:
        import zlib
        own = zlib.crc32(json.dumps([case.get('batches'), case.get('cancels'), case.get('sched')],
                                    sort_keys=True, default=str).encode()) % 5 >= 2
    ex._session.rcfg.new_session_per_task = bool(own)
    ex._term = Term()
    ex._tasks = TasksD()
    ex._check_lock = WLock(world, LOCK_CHECK)
    ex._cancel_lock = WLock(world, LOCK_CANCEL)
    ex._to_lock = WLock(world, LOCK_TO, aux=lambda: len(ex._to_tasks))
    ex._cancel_list = CList()
    ex._to_tasks = list()
    ex._watch_queue = WQ()
    ex._rpc_reqs = {}

    # launcher / resource manager
    with mock.patch.object(lm_mod.LaunchMethod, '__init__', return_value=None):
        lm = lm_mod.LaunchMethod()
    lm._log = mock.MagicMock()
    lm.name = 'FAKE'
    faults = {}
    stub_flags = {}

    class RM:
        def find_launcher(self, task):
            if faults.get(uid_i(task['uid'])) == 'nolauncher':
                return None, None
            return lm, 'FAKE'

        def get_launcher(self, name):
            if name != 'FAKE':
                raise ValueError('no such launcher %s' % name)
            return lm
    ex._rm = RM()

    def mk_script(kind):
        def f(launcher, task, *a):
            if faults.get(uid_i(task['uid'])) == 'script':
                raise OSError('injected: cannot create %s script' % kind)
            p = '%s/%s.%s.sh' % (task['task_sandbox_path'], task['uid'], kind)
            return p, p
        return f
    ex._create_exec_script = mk_script('exec')
    ex._create_launch_script = mk_script('launch')

    # recorders
    def advance(things, state=None, publish=True, push=False, **kw):
        things = things if isinstance(things, list) else [things]
        if not things:
            world.emit(['A', state, [], bool(push)])
            return
        world.emit(['A', state, [[uid_i(t['uid']), dict.get(t, 'exit_code'), dict.get(t, 'target_state')]
                                 for t in things], bool(push)])
        for t in things:
            if state:
                dict.__setitem__(t, 'state', state)

    def publish(pubsub, msg, topic=None):
        if pubsub == rpc.AGENT_UNSCHEDULE_PUBSUB:
            ms = msg if isinstance(msg, list) else [msg]
            world.emit(['U', [uid_i(t['uid']) for t in ms]])
        else:
            world.emit(['P', str(pubsub)])
    ex.advance = advance
    ex.publish = publish

    # intake
    inq = InQueue()
    ex._inputs = {'in': {'qname': 'q', 'queue': inq, 'states': [rps.AGENT_EXECUTING_PENDING]}}
    ex._workers = {rps.AGENT_EXECUTING_PENDING: ex.work}

    tasks = {}
    for b in case['batches']:
        things = []
        for td in b:
            u = td['uid']
            faults[u] = td.get('fault', 'none')
            stub_flags[u] = bool(td.get('stubborn'))
            t = TaskD()
            dict.update(t, {
                'uid': uid_s(u), 'type': 'task', 'state': rps.AGENT_EXECUTING_PENDING, 'origin': 'client',
                'task_sandbox_path': '/nonexistent/sbox/%s' % uid_s(u),
                # the description attributes which the executor reads outside of the script generation:
                # timeout / startup_timeout (handle_timeout), stdout / stderr (_handle_task), and stage_on_error
                # (not read by the unchanged code; the launch-error and cancel paths must not depend on it)
                'description': {'executable': 'true', 'ranks': 1,
                                'timeout': 5.0 if (td.get('timeout') and not td.get('startup')) else 0.0,
                                'startup_timeout': 5.0 if (td.get('timeout') and td.get('startup')) else 0.0,
                                'stage_on_error': bool(td.get('stage_on_error')),
                                'stdout': td.get('stdout'), 'stderr': td.get('stderr')},
                'slots': {}})
            tasks[u] = t
            things.append(t)
        inq.batches.append(things)

    # process world
    import subprocess as _real_sp

    class FakeSP:
        STDOUT = -2
        PIPE = -1
        TimeoutExpired = _real_sp.TimeoutExpired
        SubprocessError = _real_sp.SubprocessError

        @staticmethod
        def Popen(args=None, **kw):
            u = uid_i(str(args).split('/')[-1])
            if faults.get(u) == 'spawn':
                world.rec(EV_SPAWN, u, 0)
                raise OSError('injected: spawn failed')
            world.rec(EV_SPAWN, u, 1)
            p = FakeProc(world, u, faults.get(u) == 'afterspawn', stubborn=bool(stub_flags.get(u)))
            p.own_group = bool(kw.get('start_new_session'))
            world.procs[u] = p
            return p

    class FakeOS:
        def __getattr__(self, k):
            import os
            return getattr(os, k)

        @staticmethod
        def getpgid(pid):
            p = pid.proc
            if p.state != 'running':
                world.rec(EV_KILL, p.u, 0)          # no such process: what a signal would have met
                raise ProcessLookupError('no such process')
            return pid if p.own_group else EXECUTOR_GROUP

        @staticmethod
        def killpg(pid, sig):
            if pid is EXECUTOR_GROUP:
                # the executor, the rest of the agent and every task that was not given a session of its own
                world.anomalies.append('signal %s sent to the process group of the executor' % sig)
                world.rec(EV_GSIG, 0, int(sig))
                for q in world.procs.values():
                    if q.state == 'running' and not q.own_group and not q.stubborn:
                        world.rec(EV_KILL, q.u, 1)
                        q.state = 'killed'
                return
            if pid.proc.state == 'running' and not pid.proc.own_group:
                world.rec(EV_KILL, pid.proc.u, 0)   # a running process that leads no group: ESRCH, nothing is signalled
                raise ProcessLookupError('no such process group')
            return FakeOS.kill(pid, sig)

        @staticmethod
        def kill(pid, sig):
            p = pid.proc
            if p.state == 'running' and p.stubborn:
                world.rec(EV_KILL, p.u, 2)          # delivered, without effect
                return
            if p.state == 'running':
                world.rec(EV_KILL, p.u, 1)
                p.state = 'killed'
                return
            world.rec(EV_KILL, p.u, 0)
            raise ProcessLookupError('no such process')

    class FakeTime:
        @staticmethod
        def time():
            return 1.0e9 if sys._getframe(1).f_code.co_name == '_to_watcher' else 0.0

        @staticmethod
        def sleep(s):
            return None

    patches = [mock.patch.object(popen_mod, 'sp', FakeSP), mock.patch.object(popen_mod, 'time', FakeTime),
               mock.patch.object(ebase_mod, 'time', FakeTime), mock.patch.object(lm_mod, 'time', FakeTime),
               mock.patch.object(lm_mod, 'os', FakeOS()),
               mock.patch.object(ru, 'ru_open', lambda *a, **k: mock.MagicMock())]
    codes = []
    for cls, names in ((popen_mod.Popen, ['cancel_task', 'work', '_launch_task', '_watch',
                                          '_check_running', 'is_canceled']),
                       (ebase_mod.AgentExecutingComponent, ['control_cb', '_to_watcher', 'handle_timeout']),
                       (comp_mod.BaseComponent, ['work_cb', 'is_canceled', '_control_cb'])):
        for n in names:
            f = cls.__dict__.get(n)
            if f is not None:
                codes.append(f.__code__)
    return ex, tasks, patches, codes, popen_mod


def _canon_em(em):
    if em[0] == 'A':
        return ['A', em[1], [[u, c, t] for u, c, t in em[2]], em[3]]
    return em


def run_case(rp, case, max_lines=400, max_steps=None):
    """Replay case['sched'] on the real methods, then complete to quiescence."""
    ntasks = sum(len(b) for b in case['batches'])
    if max_steps is None:
        max_steps = 600 + 16 * ntasks + 2 * sum(len(m) for m in case.get('cancels', []))
    max_lines += 12 * ntasks        # loops over the batch that touch nothing shared
    world = World()
    ex, tasks, patches, codes, popen_mod = build(rp, world, case)
    sch = LineScheduler(codes, world)
    sch.check_code = popen_mod.Popen._check_running.__code__
    world.sch = sch
    exits = {int(k): v for k, v in (case.get('exit_codes') or {}).items()}
    cancels = [list(m) for m in case.get('cancels', [])]
    nb = len(case['batches'])

    def intake():
        for _ in range(nb):
            ex.work_cb()

    def control():
        for m in cancels:
            # the uid list of the message is itself a recording list: should the code bind it as the component's
            # cancel list (instead of copying it), the aliasing is kept and its accesses stay recorded
            ex._control_cb('control_pubsub', {'cmd': 'cancel_tasks', 'arg': {'uids': CList([uid_s(u) for u in m])}})

    fns = {'I': intake, 'C': control, 'W': ex._watch, 'T': ex._to_watcher}
    steps = []
    sched_run = []
    for p in patches:
        p.start()
    try:
        ths = {n: sch.worker(n, fns[n]) for n in THREADS}
        for n in THREADS:
            ths[n].start()
        for n in THREADS:
            if not sch.wait_parked(n):
                raise HarnessAnomaly('thread %s did not reach the start barrier' % n)

        def grant(name):
            """one step of thread `name`"""
            world.cur_ev, world.cur_em = [], []
            status = 'parked'
            b = world.blocked.get(name)
            if b is not None and b[0].state == 'running' and b[1] is None:
                pass                    # the thread sits in proc.wait() of a running process: it has no step
            elif name not in sch.done:
                for _ in range(max_lines):
                    status = sch.line(name)
                    if name in world.blocked:
                        break           # the thread entered a blocking proc.wait()
                    marked = any(t == name and e[0] not in NON_MARKING for t, e in world.cur_ev) or \
                        any(t == name for t, e in world.cur_em)
                    if status != 'parked':
                        break
                    if marked and world.held.get(name, 0) <= 0:
                        break
                else:
                    world.anomalies.append('thread %s: no recorded action within %d lines' % (name, max_lines))
                if status == 'blocked':
                    world.anomalies.append('thread %s blocked' % name)
            foreign = [t for t, e in world.cur_ev if t != name] + [t for t, e in world.cur_em if t != name]
            if foreign:
                world.anomalies.append('actions of %s during a grant to %s' % (sorted(set(foreign)), name))
            st = [name, [e for t, e in world.cur_ev if t == name], [_canon_em(e) for t, e in world.cur_em if t == name]]
            steps.append(st)
            sched_run.append(name)
            return st

        def do_exit(u, code):
            p = world.procs.get(u)
            if p is not None and p.state == 'running':
                p.state, p.code = 'exited', int(code)
                steps.append(['X', [[EV_EXIT, u, int(code)]], []])
            else:
                steps.append(['X', [], []])
            sched_run.append(['X', u, int(code)])

        for ch in case['sched']:
            if len(steps) >= max_steps:
                break
            if isinstance(ch, list):
                do_exit(ch[1], ch[2])
            else:
                grant(ch)

        # completion: a fixed fair policy
        quiescent = False
        if case.get('complete', True):
            def unblock(name):
                """fairness: a process some thread waits for exits"""
                b = world.blocked.get(name)
                if b is not None and b[0].state == 'running':
                    do_exit(b[0].u, exits.get(b[0].u, 0))

            def until_done(name):
                while name not in sch.done and len(steps) < max_steps:
                    unblock(name)
                    grant(name)
                return name in sch.done
            ok = until_done('I') and until_done('C')
            if ok:
                idle = 0
                while idle < 2 and len(steps) < max_steps:
                    unblock('T')
                    st = grant('T')
                    idle = idle + 1 if (st[1] == [[EV_LOCK, LOCK_TO, 0]] and not st[2]) else 0
                ok = idle >= 2
            if ok:
                for u in sorted(world.procs):
                    if world.procs[u].state == 'running':
                        do_exit(u, exits.get(u, 0))
                # the watcher is idle once a whole round pulled nothing and had nothing to watch
                prev_idle_pull = False
                while len(steps) < max_steps:
                    st = grant('W')
                    if prev_idle_pull and st[1] == [] and st[2] == [['U', []]]:
                        quiescent = True
                        break
                    prev_idle_pull = (bool(st[1]) and st[1][-1] == [EV_CHECK, 0, 0] and not st[2]
                                      and not any(e[0] == EV_WQ_GET for e in st[1]))
        wsnap = [[u, 'stubborn' if (world.procs[u].state == 'running' and world.procs[u].stubborn) else world.procs[u].state,
                  world.procs[u]._rc()] for u in sorted(world.procs)]
    finally:
        world.recording = False
        ex._term.stop = True
        for p in world.procs.values():
            if p.state == 'running':
                p.state, p.code = 'exited', 0
        sch.release_all()
        for n in THREADS:
            try:
                ths[n].join(2.0)
            except Exception:
                pass
        for p in reversed(patches):
            p.stop()
        del popen_mod._pids[:]

    final = {
        'tasks': sorted(uid_i(k) for k in dict.keys(ex._tasks)),
        'procattr': sorted(u for u, t in tasks.items() if dict.__contains__(t, 'proc')),
        'clist': [uid_i(x) for x in list.__iter__(ex._cancel_list)],
        'world': wsnap,
    }
    return {'steps': steps, 'sched': sched_run, 'quiescent': quiescent, 'final': final,
            'anomalies': world.anomalies[:5]}


# ------------------------------------------------------------------------------
# Coq literals of cases and observations, and the case generators (shared by
# harness/c07.py and by the executor part of C08)
#
from . import coqlit as L      # noqa: E402

FAULT_C = {'none': 'FNone', 'nolauncher': 'FNoLauncher', 'script': 'FScript', 'spawn': 'FSpawn',
           'afterspawn': 'FAfterSpawn'}
STATE_C = {'AGENT_EXECUTING': 'SExecuting', 'CANCELED': 'SCanceled', 'FAILED': 'SFailed',
           'AGENT_STAGING_OUTPUT_PENDING': 'SStaging'}
TGT_C = {None: 'TgNone', 'DONE': 'TgDone', 'FAILED': 'TgFailed', 'CANCELED': 'TgCanceled'}
TH_C = {'I': 'ThI', 'C': 'ThC', 'W': 'ThW', 'T': 'ThT', 'X': 'ThX'}
CH_C = {'I': 'CI', 'C': 'CC', 'W': 'CW', 'T': 'CT'}


# ------------------------------------------------------------------ literals
def lit_scenario(case):
    bs = L.lst([L.lst(['(mkTd %s %s %s %s)' % (L.Z(t['uid']), FAULT_C[t.get('fault', 'none')],
                                               L.boolean(t.get('timeout', False)), L.boolean(t.get('stubborn', False)))
                        for t in b])
                for b in case['batches']])
    cs = L.lst([L.zlist(m) for m in case.get('cancels', [])])
    return '(mkSc %s %s)' % (bs, cs)


def lit_choice(ch):
    if isinstance(ch, list):
        return '(CX %s %s)' % (L.Z(ch[1]), L.Z(ch[2]))
    return CH_C[ch]


def lit_sched(s):
    return L.lst([lit_choice(c) for c in s])


def lit_emission(e):
    if e[0] == 'A':
        items = L.lst(['(%s, %s, %s)' % (L.Z(u), L.opt(L.Z(c)) if isinstance(c, int) else 'None',
                                         TGT_C.get(t, 'TgNone')) for u, c, t in e[2]])
        return '(EAdv %s %s %s)' % (STATE_C.get(e[1], 'SOther'), items, L.boolean(e[3]))
    if e[0] == 'U':
        return '(EUns %s)' % L.zlist(e[1])
    return 'EPub'


def lit_obs(steps):
    return L.lst(['(%s, %s, %s)' % (TH_C[t], L.lst(['(%s, %s, %s)' % (L.Z(k), L.Z(u), L.Z(a)) for k, u, a in es]),
                                    L.lst([lit_emission(m) for m in ms])) for t, es, ms in steps])


def lit_pstate(st, rc):
    return {'none': 'PNone', 'running': 'PRunning', 'stubborn': 'PStubborn', 'killed': 'PKilled'}.get(st) or '(PExited %s)' % L.Z(rc)


def delivered(case):
    return [t['uid'] for b in case['batches'] for t in b]


def lit_final(case, fin):
    dl = delivered(case)
    w = {u: (st, rc) for u, st, rc in fin['world']}
    return '(%s, %s, %s, %s)' % (
        L.zlist([u for u in dl if u in fin['tasks']]), L.zlist([u for u in dl if u in fin['procattr']]),
        L.zlist(fin['clist']),
        L.lst(['(%s, %s)' % (L.Z(u), lit_pstate(*w.get(u, ('none', None)))) for u in dl]))


# ------------------------------------------------------------------ generators
def gen_scenario(rng, ntasks=None):
    n = ntasks or rng.choice([1, 1, 2, 2, 2, 3])
    uids = list(range(1, n + 1))
    tds = []
    for u in uids:
        f = 'none' if rng.random() < 0.7 else rng.choice(FAULTS[1:])
        tds.append({'uid': u, 'fault': f, 'timeout': rng.random() < 0.3, 'stubborn': rng.random() < 0.3,
                    'stage_on_error': rng.random() < 0.4, 'startup': rng.random() < 0.3,
                    'stdout': rng.choice([None, 'out.txt', '/abs/out.txt']), 'stderr': rng.choice([None, '/abs/err'])})
    # one or two batches
    if n > 1 and rng.random() < 0.4:
        k = rng.randint(1, n - 1)
        batches = [tds[:k], tds[k:]]
    else:
        batches = [tds]
    cancels = []
    r = rng.random()
    if r < 0.75:
        for _ in range(1 if rng.random() < 0.8 else 2):
            m = [u for u in uids if rng.random() < 0.6] or [rng.choice(uids)]
            if rng.random() < 0.5:
                rng.shuffle(m)                   # the order of a request is not the order of delivery
            if rng.random() < 0.08:
                m.append(9)                      # a uid the executor never sees
            cancels.append(m)
    exits = {str(u): rng.choice([0, 0, 1, 3]) for u in uids}
    return {'batches': batches, 'cancels': cancels, 'exit_codes': exits, 'own_session': rng.random() < 0.6}


def gen_sched(rng, sc, length=None):
    uids = delivered(sc)
    length = length or rng.randint(10, 70)
    w = [rng.choice([0.2, 1, 1, 2, 4]) for _ in range(4)]
    px = rng.choice([0.0, 0.03, 0.08, 0.2])
    out = []
    for _ in range(length):
        if rng.random() < px:
            u = rng.choice(uids)
            out.append(['X', u, int(sc['exit_codes'].get(str(u), 0))])
        else:
            out.append(rng.choices(THREADS, weights=w)[0])
        if rng.random() < 0.05:
            w = [rng.choice([0.2, 1, 1, 2, 4]) for _ in range(4)]
    return out



def scale_cancel_cases(rng, sizes, split=False, positions=('first', 'middle', 'last')):
    """a cancel request (or two adding up) of many uids -- tasks elsewhere in the pilot -- which also names a task
    that the executor meets only LATER (it is delivered after the request was handled): first, in the middle and
    last in the request; a bystander is delivered with it.  The handler registers the uids and looks every one up."""
    for n in sizes:
        for pos in positions:
            fill = list(range(10001, 10001 + n - 1))
            k = {'first': 0, 'middle': (n - 1) // 2, 'last': n - 1}[pos]
            m = fill[:k] + [1] + fill[k:]
            cancels = [m[:n // 3], m[n // 3:]] if split else [m]
            sc = {'batches': [[{'uid': 1, 'fault': 'none', 'timeout': False, 'stubborn': False},
                               {'uid': 2, 'fault': 'none', 'timeout': False, 'stubborn': False}]],
                  'cancels': cancels, 'exit_codes': {'1': 0, '2': rng.choice([0, 3])}}
            yield dict(sc, sched=['C'] * (n + len(cancels)))


def bulk_cancel_cases(rng, n=4):
    """one request names [B, A, C]: B is still on its way to the executor (second input batch) while A and C
    run; intake steps for B's batch are scheduled between the control thread's steps of the kill of A"""
    for i in range(n):
        sc = {'batches': [[{'uid': 1, 'fault': 'none', 'timeout': False, 'stubborn': i % 2 == 1},
                           {'uid': 3, 'fault': 'none', 'timeout': False, 'stubborn': False}],
                          [{'uid': 2, 'fault': 'none', 'timeout': False, 'stubborn': False}]],
              'cancels': [[2, 1, 3]], 'exit_codes': {'1': 0, '2': 0, '3': 3}}
        pre = ['I'] * 12                              # batch 1 launched: A (1) and C (3) run
        ckill = ['C'] * rng.randint(3, 7)             # register, look B up (not there), A: found .. kill
        mid = ['I'] * rng.randint(2, 4)               # batch 2: the intake filter meets B
        tail = [rng.choice(['C', 'C', 'I', 'W']) for _ in range(rng.randint(0, 12))]
        yield dict(sc, sched=pre + ckill + mid + tail)


def exit_before_poll_cases(rng):
    """the process exits (code 0 and non-zero) BEFORE cancel_task polls it -- right before the poll, or right after
    the spawn -- not yet collected by the watcher; canceler = control thread, timeout watcher, late check of the intake"""
    for code in (0, 3):
        for who in ('C', 'T', 'I'):
            for early in (False, True):
                sc = {'batches': [[{'uid': 1, 'fault': 'none', 'timeout': who == 'T', 'stubborn': False},
                                   {'uid': 2, 'fault': 'none', 'timeout': False, 'stubborn': False}]],
                      'cancels': [[1]] if who != 'T' else [], 'exit_codes': {'1': code, '2': 0}}
                x = ['X', 1, code]
                if who == 'I':          # request registered before the late check: cancel_task runs in the intake thread
                    pre = ['I', 'I', 'I', 'I'] + ([x] if early else []) + ['C', 'C', 'I', 'I', 'I', 'I'] + ([] if early else [x])
                    post = ['I'] * 4
                else:
                    n_i = 9 if who == 'T' else 8
                    pre = ['I'] * 4 + ([x] if early else []) + ['I'] * (n_i - 4)
                    pre += [who] * (2 if who == 'T' else 3) + ([] if early else [x])
                    post = [who] * 3
                tail = [rng.choice(THREADS) for _ in range(rng.randint(0, 10))]
                yield dict(sc, sched=pre + post + tail)


def big_case(n, rng=None):
    """n light tasks (no faults, no cancels) in one batch, canonical fair schedule: the intake launches them all
    before the watcher's first round of pulls, so that the watch queue holds n entries at one drain
    (n >= MAX_QUEUE_BULKSIZE = 100 exercises the bulk limit of Popen._watch)"""
    codes = {str(u): (0 if (rng is None or rng.random() < 0.7) else rng.choice([1, 3])) for u in range(1, n + 1)}
    return {'batches': [[{'uid': u, 'fault': 'none', 'timeout': False, 'stubborn': False} for u in range(1, n + 1)]],
            'cancels': [], 'exit_codes': codes, 'sched': []}


def coq_row_args(case, obs):
    """the arguments `sc sched obs q fin` of Exec.Oracle.c07_row / c08_exec_row"""
    return '%s %s %s %s %s' % (lit_scenario(case), lit_sched(obs['sched']), lit_obs(obs['steps']),
                               L.boolean(obs['quiescent'] and not obs['anomalies']), lit_final(case, obs['final']))


C07_CLAUSES = ['announced_once', 'handed_on_once', 'unscheduled_once', 'not_collected_and_canceled',
               'outcome_attached', 'announced_before_handed_on', 'exit_code_truthful', 'named_examined_after_launch',
               'canceled_only_if_running_when_polled', 'handler_examines_every_named_uid',
               'kill_reaches_running_process', 'cancel_does_not_wait_for_natural_end', 'bystanders_not_signalled']
C08_EXEC_CLAUSES = ['named_end', 'canceled_means_stopped', 'later_met', 'bystanders_untouched', 'named_examined_after_launch',
                    'canceled_only_if_running_when_polled', 'handler_examines_every_named_uid',
                    'kill_reaches_running_process', 'cancel_does_not_wait_for_natural_end', 'bystanders_not_signalled']
COQ_HEADER = 'From RP Require Import Exec.Model Exec.Oracle.'


def c08_exec_row(case, obs):
    """Coq expression : list bool = [corr; named_end; canceled_means_stopped; later_met; bystanders_untouched]"""
    return '(c08_exec_row %s)' % coq_row_args(case, obs)


def gen_cancel_cases(rng, n):
    """C08: scenarios with bystanders; the request is registered at a seed-chosen point of the schedule
    (before the intake, between placement and launch, while running, after exit)"""
    for _ in range(n):
        sc = gen_scenario(rng, rng.choice([2, 3]))
        uids = delivered(sc)
        named = [u for u in uids if rng.random() < 0.5] or [uids[0]]
        if len(named) == len(uids):
            named = named[:-1]
        sc['cancels'] = [named]
        yield dict(sc, sched=gen_sched(rng, sc))
    for c in exit_before_poll_cases(rng):
        yield c
    for c in bulk_cancel_cases(rng):
        yield c
    big = n > 1000          # thorough tier
    for c in scale_cancel_cases(rng, [1025, 1500, 2200, 3000] if big else [1100]):
        yield c
    for c in scale_cancel_cases(rng, [1300, 2600] if big else [1300], split=True, positions=('first', 'middle') if big else ('first',)):
        yield c
