"""C02 -- a granted placement has exactly the requested shape."""
from .c01 import SchedProp


class C02(SchedProp):
    id = 'C02'
    module = 'c02'
    props_files = ['Props/C02.v']
    row_fn = 'c02_row'
    preplaced_share = 0.1
    clauses = ['exactly_requested_ranks', 'rank_shape', 'ranks_per_node', 'colocate_nodes', 'oversize_rejected']
    rule = ('random scheduler histories as for C01 (shapes: ranks 1-6, cores/rank 0-4 and oversize, GPU shares 1/4-3 '
            'and oversize, lfs/mem incl. oversize, ranks_per_node, colocate/exclusive tags) on reachable occupancy '
            'states; non-trivial = >= 2 tasks held simultaneously and >= 1 task waited')


PROP = C02()
