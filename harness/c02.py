"""C02 -- a granted placement has exactly the requested shape."""
from .c01 import SchedProp, APP_TRUSTED, APP_RULE
from .sides import Sides, Spec


class C02Sched(SchedProp):
    id = 'C02'
    module = 'c02'
    props_files = ['Props/C02.v']
    row_fn = 'c02_row'
    preplaced_share = 0.1
    clauses = ['exactly_requested_ranks', 'rank_shape', 'ranks_per_node', 'colocate_nodes', 'oversize_rejected', 'exclusive_tag_nodes']
    rule = ('random scheduler histories as for C01 (shapes: ranks 1-6, cores/rank 0-4 and oversize, GPU shares 1/4-3 '
            'and oversize, lfs/mem incl. oversize, ranks_per_node, colocate/exclusive tags) on reachable occupancy '
            'states; non-trivial = >= 2 tasks held simultaneously and >= 1 task waited')


class C02(Sides, C02Sched):
    # what Pilot.nodelist.find_slots(rr, n) hands to the application: exactly n slots of the shape of rr
    side_specs = [Spec('app', 'appslots', ['shape'], only=lambda c: isinstance(c, dict) and c.get('kind') == 'seq')]
    clauses = C02Sched.clauses + side_specs[0].clause_names()
    extra_targets = C02Sched.extra_targets + ['AppSlots/Oracle.vo', 'AppSlots/Proofs.vo']
    model_targets = C02Sched.model_targets + ['AppSlots/Oracle.vo']
    trusted = C02Sched.trusted + [APP_TRUSTED]
    rule = C02Sched.rule + '; ' + APP_RULE


PROP = C02()
