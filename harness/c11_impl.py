"""C11 -- implementation driver: the real staging components of radical.pilot
run on a scratch-directory sandbox tree.

Symbolic layout (the model uses exactly these paths; the driver substitutes
the real scratch root for the leading `/R`):

    /R/client                 client sandbox   (plain path, as session._get_client_sandbox)
    /R/rsb                    resource sandbox (file://localhost/R/rsb)
    /R/rsb/s1                 session sandbox
    /R/rsb/s1/p0              pilot sandbox
    /R/rsb/s1/p0/<uid>        task sandbox     (uid = t0, t1, ...)
    endpoint_fs               file://localhost/
"""
import os
import shutil
import tarfile
import tempfile
from unittest import mock

def file_bytes(cid, size=None):
    """the bytes of the file with content id `cid`: without a size the (short) decimal id, else `size` bytes of a
    position dependent pattern keyed by the id"""
    if size is None:
        return b'%d' % cid
    out, n = [], 0
    while n < size:
        line = b'%d@%d\n' % (cid, n)
        out.append(line)
        n += len(line)
    return b''.join(out)[:size]


def known_contents(case):
    """bytes -> content id for every file the case creates.  Files with identical bytes (size 0, 1, ...) share the
    smallest id: a content id stands for the exact bytes (size + every byte), nothing else"""
    ents = [(f[2], f[3] if len(f) > 3 else None) for f in case.get('files', [])]
    for t in case['tasks']:
        ents += [(e[1], e[2] if len(e) > 2 else None) for e in t.get('exec', [])]
    known = {}
    for cid, size in sorted(ents, key=lambda x: x[0]):
        known.setdefault(file_bytes(cid, size), cid)
    return known


def canon(known, cid, size=None):
    return known[file_bytes(cid, size)]


SBOX = {'client': 'client', 'resource': 'rsb', 'session': 'rsb/s1', 'pilot': 'rsb/s1/p0'}


def sbox_rel(name):
    if name in SBOX:
        return SBOX[name]
    return 'rsb/s1/p0/' + name            # task sandbox: name == uid


class Recorder:
    """stands for a zmq publisher / output queue of a component"""
    channel = 'c11'

    def __init__(self):
        self.published = []               # [(uid, state)]
        self.pushed = []                  # task dicts, in push order

    # publisher interface
    def put(self, a, b=None, qname=None):
        if isinstance(a, str):            # publisher: put(topic, msg)
            for t in b['arg']:
                self.published.append((t['uid'], t['state']))
        else:                             # output queue: put(things, qname=)
            self.pushed.extend(a)


class Driver:

    def __init__(self, rp):
        import radical.utils as ru
        import radical.pilot.states as rps
        import radical.pilot.constants as rpc
        import radical.pilot.utils as rpu
        from radical.pilot.tmgr.staging_input.default import Default as TSI
        from radical.pilot.agent.staging_input.default import Default as ASI
        from radical.pilot.agent.staging_output.default import Default as ASO
        from radical.pilot.tmgr.staging_output.default import Default as TSO
        import radical.pilot.staging_directives as rsd
        self.ru, self.rps, self.rpc, self.rpu, self.rsd = ru, rps, rpc, rpu, rsd
        self.cls = dict(tsi=TSI, asi=ASI, aso=ASO, tso=TSO)
        self.base = os.path.join(os.getcwd(), 'c11')
        self.tmp = os.path.join(self.base, 'tmp')
        self.cwd = os.path.join(self.base, 'cwd')       # empty; the agent stagers test raw targets against cwd

    # ------------------------------------------------------------------
    def component(self, kind, rec):
        ru, rps, rpc, rpu = self.ru, self.rps, self.rpc, self.rpu
        cls = self.cls[kind]
        with mock.patch.object(cls, '__init__', return_value=None):
            c = cls()
        c._uid = 'c11.' + kind
        c._log = mock.MagicMock()
        c._prof = mock.MagicMock()
        c._publishers = {rpc.STATE_PUBSUB: rec}
        c._stager = rpu.StagingHelper(c._log)
        assert type(c._stager._backend).__name__ == 'StagingHelper_Local'
        out_state = dict(tsi=rps.AGENT_STAGING_INPUT_PENDING, asi=rps.AGENT_SCHEDULING_PENDING,
                         aso=rps.TMGR_STAGING_OUTPUT_PENDING, tso=None)[kind]
        c._outputs = {out_state: rec} if out_state else {}
        if kind == 'tsi':
            c._pilots = {}
            c._pilots_lock = ru.RLock()
            c._session_sbox = 'file://localhost' + self.root + '/rsb/s1'
            c._mkdir_threshold = 1024 * 1024
            c._session = mock.MagicMock()
            c._tar_idx = 0
        if kind in ('asi', 'aso'):
            c._pwd = self.cwd
        return c

    # ------------------------------------------------------------------
    def real(self, s):
        """symbolic string -> real string"""
        if isinstance(s, str):
            return s.replace('/R/', self.root + '/')
        return s

    def sym(self, s):
        s = str(s)
        s = s.replace(self.root + '/', '/R/')
        if self.tmp in s:
            s = 'TMPTAR'
        return s

    def sd_real(self, sd):
        if isinstance(sd, dict):
            return {k: self.real(v) for k, v in sd.items()}
        return self.real(sd)

    def sds_sym(self, sds):
        return [[self.sym(d['source']), self.sym(d['target']), str(d['action'])] for d in sds]

    # ------------------------------------------------------------------
    def tree(self):
        out = []
        for dp, dns, fns in os.walk(self.root):
            rel = os.path.relpath(dp, self.root)
            rel = '' if rel == '.' else rel + '/'
            for d in dns:
                out.append([rel + d, 'D'])
            for f in fns:
                p = os.path.join(dp, f)
                out.append([rel + f] + self.content(p))
        out.sort()
        return out

    def content(self, p):
        """content id of a file: defined only if its bytes are exactly those of a file of the case"""
        import hashlib
        data = open(p, 'rb').read()
        if data in self.known:
            return ['F', self.known[data]]
        try:
            mem = []
            with tarfile.open(p) as tf:
                try:
                    for m in tf:
                        if m.isdir():
                            mem.append([m.name.rstrip('/'), 'D'])
                        else:
                            mem.append([m.name, 'F', self.known.get(tf.extractfile(m).read(), -1)])
                except Exception:
                    mem.append(['', 'BROKEN'])
            mem = [[self.sym('/' + m[0])[1:]] + m[1:] for m in mem]
            return ['T', mem]
        except Exception:
            return ['X', len(data), hashlib.sha1(data).hexdigest()[:12]]

    def payload_op(self, op):
        """what the payload / the user does to the sandboxes besides writing files"""
        p = os.path.join(self.root, sbox_rel(op[1]), op[2]).rstrip('/')
        assert p.startswith(self.root + '/') and p != self.root
        if op[0] == 'rm':
            if os.path.isdir(p):
                shutil.rmtree(p)
            elif os.path.exists(p):
                os.remove(p)
        elif op[0] == 'mv':
            q = os.path.join(self.root, sbox_rel(op[3]), op[4]).rstrip('/')
            if os.path.exists(p) and not os.path.exists(q) and os.path.isdir(os.path.dirname(q)) \
                    and not (q + '/').startswith(p + '/'):
                os.rename(p, q)
        else:
            raise ValueError(op)

    def write(self, sandbox, rel, cid, size=None, age=3600):
        """the data exist for a while when staging starts: a target staged a moment ago is newer"""
        import time
        p = os.path.join(self.root, sbox_rel(sandbox), rel)
        os.makedirs(os.path.dirname(p), exist_ok=True)
        with open(p, 'wb') as f:
            f.write(file_bytes(cid, size))
        then = self.t_start - age          # all initial files carry the same time stamp
        os.utime(p, (then, then))

    # ------------------------------------------------------------------
    def run(self, case):
        ru, rps, rpc, rsd = self.ru, self.rps, self.rpc, self.rsd
        import time
        self.t_start = time.time()
        shutil.rmtree(self.base, ignore_errors=True)
        self.root = os.path.join(self.base, 'R')
        for d in (self.root, self.tmp, self.cwd):
            os.makedirs(d)
        tempfile.tempdir = self.tmp
        os.chdir(self.cwd)
        for s in SBOX.values():
            os.makedirs(os.path.join(self.root, s), exist_ok=True)
        for sb, rel in case.get('dirs', []):
            os.makedirs(os.path.join(self.root, sbox_rel(sb), rel), exist_ok=True)
        self.known = known_contents(case)
        for f in case.get('files', []):
            self.write(f[0], f[1], f[2], f[3] if len(f) > 3 else None)

        tree0 = self.tree()
        url = 'file://localhost' + self.root
        tobs = []
        tasks = []
        for i, t in enumerate(case['tasks']):
            uid = 't%d' % i
            o = {'uid': uid}
            tobs.append(o)
            descr = {'input_staging': [self.sd_real(d) for d in t['in']],
                     'output_staging': [self.sd_real(d) for d in t['out']],
                     'stage_on_error': bool(t.get('soe'))}
            # Task.__init__ -> expand_description
            try:
                rsd.expand_description(descr)
            except Exception as e:
                o['expand'] = {'exc': type(e).__name__ if type(e).__name__ in ('ValueError',) else 'Exception'}
                o['states'] = []
                continue
            o['expand'] = {'in': self.sds_sym(descr['input_staging']),
                           'out': self.sds_sym(descr['output_staging'])}
            task = {'uid': uid, 'type': 'task', 'state': rps.TMGR_STAGING_INPUT_PENDING,
                    'description': descr, 'pilot': 'p0',
                    'client_sandbox': self.root + '/client',
                    'endpoint_fs': 'file://localhost/',
                    'resource_sandbox': url + '/rsb',
                    'session_sandbox': url + '/rsb/s1',
                    'pilot_sandbox': url + '/rsb/s1/p0/',
                    'task_sandbox': url + '/rsb/s1/p0/%s/' % uid,
                    'task_sandbox_path': self.root + '/rsb/s1/p0/%s/' % uid,
                    'stdout': '', 'stderr': '', '_case': t}
            tasks.append(task)

        rec = Recorder()
        escaped = []

        # ONE instance of every component (and of its staging helper) handles all bulks of the case
        comps = {}

        def work(kind, bulk):
            """BaseComponent.work_cb: an exception escaping `work` fails the whole bulk"""
            if not bulk:
                return
            if kind not in comps:
                comps[kind] = self.component(kind, rec)
            comp = comps[kind]
            try:
                comp.work(bulk)
            except Exception as e:
                escaped.append('%s: %s' % (kind, type(e).__name__))
                comp.advance(bulk, rps.FAILED, publish=True, push=False)

        # the bulks pass through the four stagers one after the other
        for b in sorted(set(t['_case'].get('bulk', 0) for t in tasks)):
            rec.pushed = []
            work('tsi', [t for t in tasks if t['_case'].get('bulk', 0) == b])
            stage, rec.pushed = rec.pushed, []
            work('asi', stage)
            stage, rec.pushed = rec.pushed, []
            # "execution": the task writes its files, the executor sets the outcome
            for task in stage:
                t = task['_case']
                os.makedirs(task['task_sandbox_path'], exist_ok=True)
                for e in t.get('exec', []):
                    self.write(task['uid'], e[0], e[1], e[2] if len(e) > 2 else None, age=600)
                for op in t.get('ops', []):
                    self.payload_op(op)
                task['target_state'] = t['outcome']
                task['state'] = rps.AGENT_STAGING_OUTPUT_PENDING
            work('aso', stage)
            stage, rec.pushed = rec.pushed, []
            work('tso', stage)

        for o in tobs:
            if 'states' not in o:
                o['states'] = [s for u, s in rec.published if u == o['uid']]
        for task in tasks:
            o = tobs[int(task['uid'][1:])]
            o['in_after'] = self.sds_sym(task['description']['input_staging'])
        os.chdir(self.base)
        obs = {'tasks': [{k: v for k, v in o.items() if k != 'uid'} for o in tobs], 'tree0': tree0, 'tree': self.tree(), 'escaped': escaped}
        return obs
